"""C18 — frame pianorolls and note sequences convert back and forth without drift (DESIGN 6.18).

Streams (all derived from VERIF_SEED):
  enc        sequence_to_pianoroll            real code vs Lean model, all seven rolls cell by cell
  dec        pianoroll_to_note_sequence       real code vs Lean model, notes in emission order
  ons        pianoroll_onsets_to_note_sequence
  malformed  inputs that must be rejected / hit numpy clamping (both directions)
  oracle-*   the property statement evaluated on the real code's outputs in exact arithmetic
             (frame sets, run decoding, both round trips) — written from the statement, not the model
"""
import ast
import collections
import inspect
import json
import math
import textwrap
from fractions import Fraction as F

import numpy as np

from harness.common import rat, corpus_cases

PID = 'C18'
EXE = 'drv_c18'
# translator tie T2 (gen/translit2.py): the local functions time_to_frames / frames_from_times of sequence_to_pianoroll
BRIDGE = 'NoteSeqVerif.Props.C18_bridge'
BRIDGE_THEOREMS = ['NSV.C18.t2_time_to_frames', 'NSV.C18.t2_frames_from_times']

FPS = [8, 16, 31.25, 32, 50, 62.5, 100]
EXTRA_FPS = [10, 20, 86.1328125, 44.1, 3]
MODES = {'window': 0, 'length_ms': 1}


# ----------------------------------------------------------------------------- generated constants
def _snap_eps(sl):
    """the literal `eps` of `abs(frames - nearest) <= eps * max(1.0, abs(frames))` inside
    sequence_to_pianoroll.time_to_frames, read from the source (None if the snap is not there)."""
    tree = ast.parse(textwrap.dedent(inspect.getsource(sl.sequence_to_pianoroll)))
    # float constants bound to a name inside the function (a maintainer's "name the magic number" refactoring)
    local_consts = {}
    for a in ast.walk(tree):
        if isinstance(a, ast.Assign) and len(a.targets) == 1 and isinstance(a.targets[0], ast.Name) \
                and isinstance(a.value, ast.Constant) and isinstance(a.value.value, float):
            local_consts.setdefault(a.targets[0].id, []).append(a.value.value)

    def value(e):
        if isinstance(e, ast.Constant) and isinstance(e.value, float):
            return e.value
        if isinstance(e, ast.Name):
            if len(local_consts.get(e.id, [])) == 1:
                return local_consts[e.id][0]
            v = getattr(sl, e.id, None)
            if isinstance(v, float):
                return v
        return None
    for fn in ast.walk(tree):
        if isinstance(fn, ast.FunctionDef) and fn.name == 'time_to_frames':
            for c in ast.walk(fn):
                if (isinstance(c, ast.Compare) and len(c.ops) == 1 and isinstance(c.ops[0], ast.LtE)
                        and isinstance(c.comparators[0], ast.BinOp) and isinstance(c.comparators[0].op, ast.Mult)
                        and value(c.comparators[0].left) is not None):
                    return value(c.comparators[0].left)
    return None


def lean_rat(x):
    f = F(x)
    return '(%d / %d : Rat)' % (f.numerator, f.denominator) if f.denominator != 1 else '(%d : Rat)' % f.numerator \
        if f >= 0 else '((%d) : Rat)' % f.numerator


def generate(chk):
    from note_seq import sequences_lib as sl, constants
    from harness.t2 import generate_t2
    V = {'abs': 'rabs', 'max': 'rmax', 'min': 'rmin', 'round': 'roundHalfEven'}
    generate_t2(chk, 'C18', [
        dict(fn=sl.sequence_to_pianoroll, module=sl, name='time_to_frames', nested='time_to_frames', vocab=V,
             params={'frames_per_second': 'float', 'time': 'float'}),
        dict(fn=sl.sequence_to_pianoroll, module=sl, name='frames_from_times', nested='frames_from_times', vocab=V,
             params={'frames_per_second': 'float', 'min_frame_occupancy_for_label': 'float', 'start_time': 'float',
                     'end_time': 'float'}),
    ], imports=('NoteSeqVerif.Model.C18',))
    eps = _snap_eps(sl)
    chk.translit['time_to_frames.snap_eps'] = repr(eps) if eps is not None else 'NOT FOUND (no snap in the source)'
    if eps is None:
        # the AST reader gave up (e.g. the literal was moved into a named constant): keep the last regenerated file; the
        # compiled model with the last value is still compared bit-exactly with the code on every request
        chk.broken.append('translator:C18 (snap tolerance literal not found in sequence_to_pianoroll.time_to_frames)')
        return
    txt = ('/-! GENERATED from /repo on every run by harness/c18.py — do not edit. -/\n'
           'namespace NSV.C18.Gen\n'
           'def SNAP_EPS : Rat := %s\n' % (lean_rat(eps) if eps is not None else '((-1) : Rat)')
           + 'def ONSET_WINDOW : Int := %d\n' % sl.ONSET_WINDOW
           + 'def ONSET_UPWEIGHT : Rat := %s\n' % lean_rat(sl.ONSET_UPWEIGHT)
           + 'def MAX_MIDI_VELOCITY : Int := %d\n' % constants.MAX_MIDI_VELOCITY
           + 'def VEL_SLOTS : Nat := %d\n' % (constants.MAX_MIDI_PITCH + 1)
           + 'def STANDARD_PPQ : Int := %d\n' % constants.STANDARD_PPQ
           + 'def DEFAULT_QPM : Rat := %s\n' % lean_rat(constants.DEFAULT_QUARTERS_PER_MINUTE)
           + 'end NSV.C18.Gen\n')
    chk.regenerate('NoteSeqVerif/Generated/C18.lean', txt)


# ----------------------------------------------------------------------------- wire
def bits(row):
    return 'b' + ''.join('1' if x else '0' for x in row)


def wl(items):
    items = list(items)
    return ' '.join([str(len(items))] + items)


def sparse(arr, default):
    idx = np.nonzero(arr != default)
    cells = ['%d %d %s' % (r, c, rat(float(arr[r, c])) if arr.dtype.kind == 'f' else str(int(arr[r, c])))
             for r, c in zip(*idx)]
    return wl(cells)


ENC_DEFAULTS = dict(max_velocity=127, add_blank_frame_before_onset=False, onset_upweight=5.0, onset_window=1,
                    onset_length_ms=0, offset_length_ms=0, onset_mode='window', onset_delay_ms=0.0,
                    min_frame_occupancy_for_label=0.0, onset_overlap=True)


def enc_kw(case):
    kw = dict(ENC_DEFAULTS)
    kw.update(case.get('kw', {}))
    return kw


def enc_request(case):
    kw = enc_kw(case)
    mode = MODES.get(kw['onset_mode'], 7)
    t = ['enc', rat(case['fps']), str(case['min_pitch']), str(case['max_pitch']), str(kw['max_velocity']),
         rat(bool(kw['add_blank_frame_before_onset'])), rat(kw['onset_upweight']), str(kw['onset_window']),
         rat(kw['onset_length_ms']), rat(kw['offset_length_ms']), str(mode), rat(kw['onset_delay_ms']),
         rat(kw['min_frame_occupancy_for_label']), rat(bool(kw['onset_overlap'])), rat(case['total']),
         wl('%d %d %s %s' % (p, v, rat(s), rat(e)) for p, v, s, e in case['notes']),
         wl('%s %d %d' % (rat(t_), n, v) for t_, n, v in case.get('ccs', []))]
    return ' '.join(t)


def build_seq(case):
    from note_seq.protobuf import music_pb2
    ns = music_pb2.NoteSequence()
    for p, v, s, e in case['notes']:
        n = ns.notes.add()
        n.pitch, n.velocity, n.start_time, n.end_time = p, v, s, e
    for t_, num, val in case.get('ccs', []):
        c = ns.control_changes.add()
        c.time, c.control_number, c.control_value = t_, num, val
    ns.total_time = case['total']
    return ns


# Purity of every call the harness makes (all streams, all oracles): the three functions are described as functions of
# their inputs, so a call must leave its arguments as they were - the NoteSequence byte for byte in deterministic
# serialisation, every numpy array byte for byte -, also when it raises.  A change is recorded with the case as replay.
IMPURE = []


def _snap(a):
    if isinstance(a, np.ndarray):
        return (a.dtype.str, a.shape, a.tobytes())
    if hasattr(a, 'SerializeToString'):
        return a.SerializeToString(deterministic=True)
    return None


def pure_call(case, fn, *args, **kwargs):
    allargs = list(args) + [kwargs[k] for k in sorted(kwargs)]
    names = ['argument #%d' % (i + 1) for i in range(len(args))] + sorted(kwargs)
    before = [_snap(a) for a in allargs]
    try:
        out = fn(*args, **kwargs)
    finally:
        for nm, a, b in zip(names, allargs, before):
            if b is not None and _snap(a) != b and len(IMPURE) < 20:
                IMPURE.append(('%s changed its %s (%s) in place' % (fn.__name__, nm, type(a).__name__), case))
    for nm, a in zip(names, allargs):
        if isinstance(a, np.ndarray) and a.size:
            for r in (out if isinstance(out, tuple) else [out]):
                if isinstance(r, np.ndarray) and (r is a or np.shares_memory(r, a)) and len(IMPURE) < 20:
                    IMPURE.append(('%s returned an array sharing memory with its %s' % (fn.__name__, nm), case))
        if out is a and len(IMPURE) < 20:
            IMPURE.append(('%s returned its %s itself' % (fn.__name__, nm), case))
    return out


def enc_call(sl, case):
    return pure_call(case, sl.sequence_to_pianoroll, build_seq(case), case['fps'], case['min_pitch'], case['max_pitch'], **enc_kw(case))


def enc_line(pr):
    return ' '.join(['ok', str(pr.active.shape[0]), str(pr.active.shape[1]),
                     'A', sparse(pr.active, 0), 'W', sparse(pr.weights, 1), 'O', sparse(pr.onsets, 0),
                     'OV', sparse(pr.onset_velocities, 0), 'AV', sparse(pr.active_velocities, 0),
                     'OF', sparse(pr.offsets, 0), 'CC', sparse(pr.control_changes, 0)])


def enc_impl(sl, case):
    try:
        pr = enc_call(sl, case)
    except Exception as e:  # pylint: disable=broad-except
        return 'err ' + type(e).__name__, None
    if pr.active.dtype != np.float32 or pr.active_velocities.dtype != np.float32 or pr.weights.dtype != np.float32:
        return 'dtype-changed', pr
    return enc_line(pr), pr


DEC_DEFAULTS = dict(min_duration_ms=0, velocity=70, min_midi_pitch=0, velocity_scale=80, velocity_bias=10)


def dec_kw(case):
    kw = dict(DEC_DEFAULTS)
    kw.update(case.get('kw', {}))
    return kw


def dec_arrays(case):
    w = case['w']
    def arr(m, dtype):
        if m is None:
            return None
        return np.array(m, dtype=dtype).reshape(len(m), w)
    vd = np.float32 if case.get('vdtype', 'f32') == 'f32' else np.float64
    return arr(case['frames'], bool), arr(case.get('onsets'), bool), arr(case.get('offsets'), bool), arr(case.get('vels'), vd)


def opt_rows(m):
    return '0' if m is None else '1 ' + wl(bits(r) for r in m)


def vel_rows(case):
    m = case.get('vels')
    if m is None:
        return '0'
    _, _, _, v = dec_arrays(case)
    return '1 ' + wl(wl(rat(float(x)) for x in row) for row in v)


def dec_request(case):
    kw = dec_kw(case)
    prec = 24 if (case.get('vels') is not None and case.get('vdtype', 'f32') == 'f32') else 53
    return ' '.join(['dec', rat(case['fps']), rat(kw['min_duration_ms']), str(kw['velocity']), str(kw['min_midi_pitch']),
                     rat(kw['velocity_scale']), rat(kw['velocity_bias']), str(prec),
                     'F', wl(bits(r) for r in case['frames']), 'ON', opt_rows(case.get('onsets')),
                     'OFF', opt_rows(case.get('offsets')), 'V', vel_rows(case)])


def notes_line(ns):
    return 'ok %s %s' % (rat(ns.total_time), wl('%d %d %s %s' % (n.pitch, n.velocity, rat(n.start_time), rat(n.end_time))
                                                 for n in ns.notes))


def dec_call(sl, case):
    fr, on, off, v = dec_arrays(case)
    kw = dec_kw(case)
    return pure_call(case, sl.pianoroll_to_note_sequence, fr, case['fps'], kw['min_duration_ms'], velocity=kw['velocity'],
                                         instrument=case.get('instrument', 0), program=case.get('program', 0),
                                         min_midi_pitch=kw['min_midi_pitch'], onset_predictions=on,
                                         offset_predictions=off, velocity_values=v,
                                         velocity_scale=kw['velocity_scale'], velocity_bias=kw['velocity_bias'])


def dec_impl(sl, case):
    try:
        ns = dec_call(sl, case)
    except Exception as e:  # pylint: disable=broad-except
        return 'err ' + type(e).__name__, None
    return notes_line(ns), ns


def ons_request(case):
    kw = dec_kw(case)
    prec = 24 if (case.get('vels') is not None and case.get('vdtype', 'f32') == 'f32') else 53
    return ' '.join(['ons', rat(case['fps']), rat(case['dur']), str(kw['velocity']), str(kw['min_midi_pitch']),
                     rat(kw['velocity_scale']), rat(kw['velocity_bias']), str(prec),
                     'O', wl(bits(r) for r in case['frames']), 'V', vel_rows(case)])


def ons_call(sl, case):
    fr, _, _, v = dec_arrays(case)
    kw = dec_kw(case)
    return pure_call(case, sl.pianoroll_onsets_to_note_sequence, fr, case['fps'], note_duration_seconds=case['dur'],
                                                velocity=kw['velocity'], min_midi_pitch=kw['min_midi_pitch'],
                                                velocity_values=v, velocity_scale=kw['velocity_scale'],
                                                velocity_bias=kw['velocity_bias'])


def ons_impl(sl, case):
    try:
        ns = ons_call(sl, case)
    except Exception as e:  # pylint: disable=broad-except
        return 'err ' + type(e).__name__, None
    return notes_line(ns), ns


# ----------------------------------------------------------------------------- generators
def nextafter_n(x, n):
    for _ in range(abs(n)):
        x = math.nextafter(x, math.inf if n > 0 else -math.inf)
    return x


def gen_fps(rng, extra=0.1):
    f = rng.choice(EXTRA_FPS) if rng.random() < extra else rng.choice(FPS)
    if float(f).is_integer() and rng.random() < 0.5:
        return int(f)
    return float(f)


def gen_time(rng, fps, maxk, eps=1e-9):
    """times from: decoder-style grid k*(1/fps), division grid k/fps, both +- ulps, the edges of the snap
    window, half frames, arbitrary doubles."""
    k = rng.randrange(0, maxk + 1)
    u = rng.random()
    if u < 0.3:
        return k * (1 / fps), 'grid-mul'
    if u < 0.4:
        return k / fps, 'grid-div'
    if u < 0.5:
        return nextafter_n(k * (1 / fps), rng.randrange(-4, 5)), 'grid+-ulps'
    if u < 0.62:
        # around the edge of the snap window: |x - k| ~ eps * max(1, k)
        m = max(1, k)
        d = eps * m * rng.choice([0.5, 0.9, 0.999, 0.999999, 1.0, 1.000001, 1.001, 1.1, 2.0]) * rng.choice([-1, 1])
        return max(0.0, (k + d) / fps), 'snap-edge'
    if u < 0.7:
        return (k + 0.5) / fps, 'half-frame'
    if u < 0.78:
        return (k + rng.choice([0.25, 0.75, 0.1, 0.9, 0.01, 0.99])) / fps, 'frac-frame'
    return rng.uniform(0, (maxk + 1) / fps), 'arbitrary'


def gen_enc_case(rng, malformed=False):
    fps = gen_fps(rng)
    maxk = rng.choice([6, 20, 20, 64, 64, 300, 3000])
    min_pitch = rng.choice([21, 60, 0, 36, 100])
    width = rng.choice([1, 2, 3, 5, 8, 12, 16, 16, 88])
    max_pitch = min_pitch + width - 1
    hist = set()
    kw = {}
    if rng.random() < 0.35:
        kw['onset_mode'] = 'length_ms'
        kw['onset_length_ms'] = rng.choice([0, 10, 32, 100, 32.5, 1000 / fps, 2000 / fps])
    if rng.random() < 0.3:
        kw['onset_window'] = rng.choice([0, 2, 3, 1])
    if rng.random() < 0.3:
        kw['offset_length_ms'] = rng.choice([10, 32, 100, 1000 / fps, 2.5])
    if rng.random() < 0.35:
        kw['onset_delay_ms'] = rng.choice([10.0, -10.0, 25, -50.0, 3.7, 1000 / fps, -1000 / fps, -300.0, 120])
    if rng.random() < 0.3:
        kw['min_frame_occupancy_for_label'] = rng.choice([0.25, 0.5, 1.0, 0.9, 0.1, 1e-6])
    if rng.random() < 0.2:
        kw['onset_overlap'] = False
    if rng.random() < 0.25:
        kw['add_blank_frame_before_onset'] = True
    if rng.random() < 0.2:
        kw['onset_upweight'] = rng.choice([1.0, 2.5, 3, 7.3])
    if rng.random() < 0.15:
        kw['max_velocity'] = rng.choice([100, 64, 127, 1, 90])
    maxv = kw.get('max_velocity', 127)
    notes = []
    nn = rng.choice([0, 1, 1, 2, 3, 5, 8, 12, 30])
    pool = [min_pitch, max_pitch, min_pitch - 1, max_pitch + 1] + [rng.randrange(min_pitch - 2, max_pitch + 3) for _ in range(3)]
    for _ in range(nn):
        a, ka = gen_time(rng, fps, maxk)
        u = rng.random()
        if u < 0.12:
            b, kb = a, 'zero-length'
        elif u < 0.3:
            b, kb = a + rng.choice([0.1, 0.5, 0.9, 1.0]) / fps, 'sub-frame'
        elif u < 0.6:
            kk = rng.randrange(1, 9)
            b, kb = a + kk * (1 / fps), 'frames-added'
        else:
            b, kb = gen_time(rng, fps, maxk)
            if b < a:
                a, b = b, a
                ka, kb = kb, ka
        p = rng.choice(pool) if rng.random() < 0.8 else rng.randrange(max(0, min_pitch - 3), min(127, max_pitch + 3) + 1)
        p = min(127, max(0, p))
        v = rng.choice([maxv, 1, rng.randrange(1, maxv + 1)])
        notes.append([p, v, a, b])
        hist.add('start:' + ka)
        hist.add('end:' + kb)
        hist.add('pitch:in' if min_pitch <= p <= max_pitch else 'pitch:out')
    maxend = max([n[3] for n in notes] + [0.0])
    u = rng.random()
    if u < 0.45:
        total = maxend
    elif u < 0.65:
        total = (int(maxend * fps) + rng.randrange(1, 4)) * (1 / fps)
    elif u < 0.85:
        total = maxend + rng.uniform(0, 3 / fps)
    else:
        total = nextafter_n(math.ceil(maxend * fps) / fps, rng.randrange(0, 3))
        total = max(total, maxend)
    if rng.random() < 0.2:
        # a note that begins at total_time or inside the last frame (zero length or ending at total_time): its frames
        # meet the last row of the roll.  Together with an advanced / delayed onset, an occupancy threshold,
        # non-overlapping onsets or the blank frame this is where the list of decaying weights is longer than the
        # clipped slice and where the frame to blank lies past the roll (F-C18-3, F-C18-4).
        s_ = rng.choice([total, total, total - rng.choice([0.25, 0.5, 1.0, 1.5]) / fps, nextafter_n(total, -rng.randrange(1, 3))])
        s_ = min(max(0.0, s_), total)
        p = rng.choice([min_pitch, max_pitch, rng.randrange(min_pitch, max_pitch + 1)])
        notes.append([min(127, max(0, p)), rng.choice([maxv, 1]), s_, total])
        hist.add('late-note')
        if rng.random() < 0.7:
            kw.setdefault('onset_delay_ms', rng.choice([-300.0, -50.0, -3000 / fps, 120, 2000 / fps, 5000 / fps]))
        if rng.random() < 0.5:
            kw.setdefault('min_frame_occupancy_for_label', rng.choice([1.0, 0.5, 0.9]))
        if rng.random() < 0.45:
            kw.setdefault('onset_overlap', False)
        if rng.random() < 0.45:
            kw.setdefault('add_blank_frame_before_onset', True)
    ccs = []
    for _ in range(rng.choice([0, 0, 0, 1, 3, 6])):
        t_, _k = gen_time(rng, fps, maxk + 3)
        ccs.append([t_, rng.choice([64, 66, 67, 0, 127, rng.randrange(128)]), rng.choice([0, 127, 64, rng.randrange(128)])])
    if malformed:
        u = rng.random()
        if u < 0.25 and notes:
            kw['max_velocity'] = rng.choice([0, 50, 100, 126])
            rng.choice(notes)[1] = rng.choice([127, 101, 51, kw['max_velocity'] + 1, kw['max_velocity']])
            hist.add('mal:velocity>max')
        elif u < 0.4:
            kw['onset_mode'] = rng.choice(['bogus', '', 'Window'])
            hist.add('mal:onset-mode')
        elif u < 0.55:
            total = rng.choice([0.0, maxend / 2, maxend - 1 / fps, -1.0, -0.5 / fps])
            hist.add('mal:total<end')
        elif u < 0.65:
            max_pitch = min_pitch - rng.choice([1, 2, 3])
            hist.add('mal:empty-pitch-range')
        elif u < 0.8:
            for n in notes:
                if rng.random() < 0.5:
                    n[2] -= rng.choice([0.5, 3, 40]) / fps
                    if rng.random() < 0.4:
                        # the whole note before time 0: a negative END frame is the one way left to the numpy
                        # broadcast ValueError of the weights slice (negative slice bound wraps, list is empty)
                        n[3] = n[2] + rng.choice([0, 0.5, 2]) / fps
                        if n[3] < 0:
                            hist.add('mal:note-ends-before-0')
            kw['onset_delay_ms'] = rng.choice([-5000 / fps, -100000 / fps, 0.0])
            hist.add('mal:negative-times')
        elif u < 0.9:
            ccs.append([rng.choice([0.0, 1 / fps, -1 / fps, -3000 / fps]), rng.choice([128, -1, -128, -129, 200, 5]), 5])
            hist.add('mal:cc-index')
        else:
            kw['offset_length_ms'] = rng.choice([total * 1000 + 100, total * 1500, 10000.0])
            hist.add('mal:offset>total')
    for k_ in kw:
        hist.add('kw:' + k_)
    case = {'kind': 'enc', 'fps': fps, 'min_pitch': min_pitch, 'max_pitch': max_pitch, 'kw': kw, 'total': total,
            'notes': notes, 'ccs': ccs}
    return case, hist


def gen_occ_case(rng):
    """min_frame_occupancy_for_label: notes that begin inside frame a at the share fs, cover j frames completely and end
    inside a later frame at the share fe - with fs / fe below, above and exactly at the threshold (and 1 - threshold)"""
    fps = gen_fps(rng, extra=0.0)
    thr = rng.choice([0.5, 0.5, 0.25, 0.75, 1.0, 0.125, 0.9])
    minp = rng.choice([60, 21])
    w = rng.choice([1, 2, 4])
    shares = [0.0, 0.125, 0.25, 0.375, 0.5, 0.625, 0.75, 0.875, thr, 1 - thr, nextafter_n(thr, 1), nextafter_n(thr, -1)]
    notes, f = [], rng.choice([0, 0, 6, 21, 100])
    for _ in range(rng.choice([1, 1, 2, 4])):
        fs, fe, j = rng.choice(shares), rng.choice(shares), rng.choice([0, 1, 1, 1, 2, 5])
        a, b = (f + fs) / fps, (f + j + 1 + fe) / fps
        if rng.random() < 0.15:
            b = (f + max(fs, fe)) / fps                     # ends inside its first frame
        notes.append([minp + rng.randrange(w), rng.choice([1, 80, 127]), a, max(a, b)])
        f += j + rng.choice([2, 3, 4])
    total = max(n[3] for n in notes) + rng.choice([0, 1, 3]) / fps
    kw = {'min_frame_occupancy_for_label': thr}
    if rng.random() < 0.3:
        kw.update(onset_mode='length_ms', onset_length_ms=rng.choice([1, 2, 3]) * 1000 / fps)
    return ({'kind': 'enc', 'fps': fps, 'min_pitch': minp, 'max_pitch': minp + w - 1, 'kw': kw, 'total': total, 'notes': notes, 'ccs': []},
            {'occupancy-scenario', 'kw:min_frame_occupancy_for_label'})


def gen_onset_len_case(rng):
    """onset_mode='length_ms': grid notes of k frames against an onset length of L frames (k <, =, > L; L = 0), with
    delays of whole / half frames, so that the clamp to the note end decides the onset span"""
    fps = gen_fps(rng, extra=0.0)
    minp, w = rng.choice([60, 21]), rng.choice([1, 3])
    L = rng.choice([0, 1, 2, 4, 8, 3])
    notes, f = [], rng.choice([0, 3, 10, 40])
    for _ in range(rng.choice([1, 2, 3])):
        k = rng.choice([0, 1, 2, 3, 5, 12, L, L, max(0, L - 1), L + 1])
        frac = rng.choice([0, 0, 0, 0.5, 0.25])
        notes.append([minp + rng.randrange(w), rng.choice([1, 90, 127]), (f + frac) / fps, (f + frac + k) / fps])
        f += k + rng.choice([1, 2, 9])
    total = (f + rng.choice([0, 4])) / fps
    total = max([total] + [n[3] for n in notes])
    kw = {'onset_mode': 'length_ms', 'onset_length_ms': rng.choice([L * 1000 / fps, L * (1000 / fps), 1000 * (L * (1 / fps))])}
    if rng.random() < 0.3:
        kw['onset_delay_ms'] = rng.choice([1000 / fps, 500 / fps, -1000 / fps, 2000 / fps])
    return ({'kind': 'enc', 'fps': fps, 'min_pitch': minp, 'max_pitch': minp + w - 1, 'kw': kw, 'total': total, 'notes': notes, 'ccs': []},
            {'onset-length-scenario', 'kw:onset_mode', 'kw:onset_length_ms'})


def gen_bool_matrix(rng, n, w, style=None):
    style = style or rng.choice(['runs', 'runs', 'dense', 'sparse', 'iid'])
    m = [[False] * w for _ in range(n)]
    if style == 'iid':
        p = rng.choice([0.1, 0.5, 0.9])
        return [[rng.random() < p for _ in range(w)] for _ in range(n)]
    for c in range(w):
        f = 0
        while f < n:
            if rng.random() < {'runs': 0.3, 'dense': 0.7, 'sparse': 0.08}[style]:
                ln = rng.randrange(1, 7)
                for g in range(f, min(n, f + ln)):
                    m[g][c] = True
                f += ln + rng.choice([0, 1, 1, 2, 3])   # gap 0 glues two runs: forces maximality to matter
            else:
                f += 1
    if n and rng.random() < 0.5:       # runs open at the last frame / starting at frame 0
        for c in range(w):
            if rng.random() < 0.4:
                m[n - 1][c] = True
            if rng.random() < 0.3:
                m[0][c] = True
    return m


def gen_dec_case(rng, malformed=False):
    fps = gen_fps(rng)
    n = rng.choice([1, 2, 3, 5, 8, 16, 33, 64, 64])
    w = rng.choice([1, 1, 2, 3, 5, 8, 16, 16])
    hist = set()
    frames = gen_bool_matrix(rng, n, w)
    case = {'kind': 'dec', 'fps': fps, 'w': w, 'frames': frames, 'kw': {}}
    if rng.random() < 0.55:
        # onsets: correlated with run starts, plus extra ones inside runs, plus isolated ones
        on = [[False] * w for _ in range(n)]
        for c in range(w):
            for f in range(n):
                starts = frames[f][c] and (f == 0 or not frames[f - 1][c])
                u = rng.random()
                if starts and u < 0.75:
                    on[f][c] = True
                    if f + 1 < n and rng.random() < 0.4:
                        on[f + 1][c] = True          # onset held for two frames (not fresh)
                elif frames[f][c] and u < 0.12:
                    on[f][c] = True                  # fresh onset inside a run
                elif u < 0.03:
                    on[f][c] = True                  # onset on an inactive frame
        case['onsets'] = on
        hist.add('with-onsets')
    if rng.random() < 0.4:
        off = gen_bool_matrix(rng, n, w, 'sparse')
        if rng.random() < 0.5:   # offsets right at run ends / inside runs
            for c in range(w):
                for f in range(1, n):
                    if frames[f][c] and rng.random() < 0.08:
                        off[f][c] = True
        case['offsets'] = off
        hist.add('with-offsets')
    if rng.random() < 0.5:
        case['vdtype'] = rng.choice(['f32', 'f32', 'f64'])
        vals = [0.0, 1.0, 0.5, 100 / 127, 1.5, -0.25, 0.1, 0.9999999, 1e-3]
        case['vels'] = [[rng.choice(vals) if rng.random() < 0.4 else rng.random() for _ in range(w)] for _ in range(n)]
        hist.add('with-velocities:' + case['vdtype'])
        if rng.random() < 0.3:
            case['kw']['velocity_scale'] = rng.choice([127, 100, 80.5, 64])
            case['kw']['velocity_bias'] = rng.choice([0, 1, 10.5, 27])
    u = rng.random()
    if u < 0.45:
        case['kw']['min_duration_ms'] = rng.choice([1000 / fps, 2000 / fps, 3000 / fps, 1000 * (2 * (1 / fps)), 25, 50, 100, 62.5, 0.001,
                                                    nextafter_n(2000 / fps, rng.choice([-1, 1]))])
        hist.add('min-duration>0')
    if rng.random() < 0.5:
        case['kw']['min_midi_pitch'] = rng.choice([21, 60, 100, 112, 0])
    if rng.random() < 0.3:
        case['kw']['velocity'] = rng.choice([0, 1, 64, 127, 100])
    if malformed:
        u = rng.random()
        if u < 0.3:
            case['frames'] = []
            case.pop('onsets', None), case.pop('offsets', None), case.pop('vels', None)
            hist.add('mal:no-frames')
        elif u < 0.5:
            case['fps'] = 0
            hist.add('mal:fps=0')
        elif u < 0.8:
            # more than 128 pitch columns: onset_velocities has only 128 slots
            w = rng.choice([129, 130, 140])
            n = rng.choice([2, 4, 9])
            case.update({'w': w, 'frames': gen_bool_matrix(rng, n, w, rng.choice(['sparse', 'runs']))})
            case.pop('offsets', None), case.pop('vels', None)
            if 'onsets' in case:
                case['onsets'] = [list(r) for r in case['frames']]
                if rng.random() < 0.5:
                    case['vels'] = [[rng.random() for _ in range(w)] for _ in range(n)]
            if rng.random() < 0.5:
                for r in case['frames']:
                    for c in range(128, w):
                        r[c] = False
                if 'onsets' in case:
                    case['onsets'] = [list(r) for r in case['frames']]
            hist.add('mal:width>128')
        else:
            case['frames'] = [[] for _ in range(n)]
            case['w'] = 0
            case.pop('onsets', None), case.pop('offsets', None), case.pop('vels', None)
            hist.add('mal:zero-width')
    return case, hist


def mindur_case(rng, fps, k, variant='nominal'):
    """decoder case for the clause "drops only notes shorter than min_duration_ms": 16 pitch columns, each holding one
    run of k frames at a different start frame (0..7 and eight later ones; a few columns k-1 / k+1 frames), and a
    threshold that is EXACTLY the length of those runs: k*1000/fps, 1000*(k*(1/fps)), k*(1000/fps), the binary64
    duration (e*fl - s*fl)*1000 of one of the runs, each also one ulp up / down."""
    n = 64
    w = 16
    starts = list(range(8)) + [rng.randrange(8, max(9, n - k + 1)) for _ in range(8)]
    frames = [[False] * w for _ in range(n)]
    lens = []
    for c, s0 in enumerate(starts):
        kk = k
        if variant != 'nominal' and rng.random() < 0.25:
            kk = max(1, k + rng.choice([-1, 1]))
        s0 = min(s0, n - kk)
        lens.append((s0, kk))
        for f in range(s0, s0 + kk):
            frames[f][c] = True
    fl = 1 / fps
    if variant == 'nominal':
        m = k * 1000 / fps
    else:
        s0, kk = rng.choice(lens)
        m = rng.choice([k * 1000 / fps, 1000 * (k * fl), k * (1000 / fps), ((s0 + kk) * fl - s0 * fl) * 1000, (kk * fl) * 1000])
        m = nextafter_n(m, rng.choice([0, 0, -1, 1, -2, 2]))
        if float(m).is_integer() and rng.random() < 0.5:
            m = int(m)
    case = {'kind': 'dec', 'fps': fps, 'w': w, 'frames': frames, 'kw': {'min_duration_ms': m}}
    if variant != 'nominal' and rng.random() < 0.3:
        case['onsets'] = [[bool(frames[f][c]) and (f == 0 or not frames[f - 1][c]) for c in range(w)] for f in range(n)]
    return case, {'min-duration==run-length:' + variant, 'fps:%s' % fps}


def gen_ons_case(rng):
    fps = gen_fps(rng)
    n = rng.choice([0, 1, 2, 5, 16, 64])
    w = rng.choice([1, 2, 5, 16])
    case = {'kind': 'ons', 'fps': fps, 'w': w, 'frames': gen_bool_matrix(rng, n, w, rng.choice(['sparse', 'iid', 'runs'])),
            'dur': rng.choice([0.05, 0.05, 1 / fps, 0.0, 0.25, 0.1]), 'kw': {}}
    hist = set()
    if rng.random() < 0.5:
        case['vdtype'] = rng.choice(['f32', 'f64'])
        case['vels'] = [[rng.choice([0.0, 1.0, 0.5, 1.5, -1.0]) if rng.random() < 0.3 else rng.random() for _ in range(w)] for _ in range(n)]
        hist.add('with-velocities:' + case['vdtype'])
    else:
        case['kw']['velocity'] = rng.choice([70, 0, 1, -3, 127])
        hist.add('default-velocity')
    if rng.random() < 0.4:
        case['kw']['min_midi_pitch'] = rng.choice([21, 60])
    if rng.random() < 0.3:
        case['kw']['velocity_scale'] = rng.choice([127, 100, 64])
        case['kw']['velocity_bias'] = rng.choice([0, 1, 27])
    return case, hist


# ----------------------------------------------------------------------------- oracle (from the property text)
TOL = F(1, 10**9) * (1 + F(1, 10**5))     # the documented snap window, slightly widened
NOISE = F(1, 2**40)                         # float noise around an exactly-on-grid product


def frame_options(x, lo):
    """allowed integer frame(s) for the fractional frame position `x` (exact): floor (lo=True) or
    ceil; inside the snap window the nearest integer as well; a position within float noise of an
    integer must give that integer."""
    k = math.floor(x + F(1, 2))
    m = max(F(1), abs(x))
    base = math.floor(x) if lo else math.ceil(x)
    if abs(x - k) <= NOISE * m:
        return {k}
    if abs(x - k) <= TOL * m:
        return {base, k}
    return {base}


def _positions(x):
    """exact frame position(s) the documented snap allows for `x`: itself; the nearest integer too inside the 1e-9
    window; only the integer when x is within float noise of it"""
    k = math.floor(x + F(1, 2))
    m = max(F(1), abs(x))
    if abs(x - k) <= NOISE * m:
        return [F(k)]
    if abs(x - k) <= TOL * m:
        return [x, F(k)]
    return [x]


ENC_COVER = collections.Counter()


def span_options(xs, xe, thr):
    """the frame span(s) [first, last+1) a note / onset / interval at exact frame positions xs <= xe (xs >= 0) may be
    given under min_frame_occupancy_for_label = thr, from the documentation: "a note must occupy at least this
    percentage of a frame, for the frame to be given a label", every note fills at least one frame.
      * first frame floor(xs): labelled iff the share floor(xs)+1-xs of it that lies after the start is >= thr, else the
        span begins one frame later;
      * fully covered frames are always labelled (thr <= 1);
      * last frame ceil(xe)-1 when the note only covers the share xe-(ceil(xe)-1) of it: labelled iff that share >= thr.
        Judged when the last frame is the one right after the (possibly moved) first frame.  For longer notes the code
        measures `end_frames - start_frame - 1` (> 1), i.e. never removes the last frame - that differs from the
        documented meaning, is not part of the property statement, and is left open here (both spans allowed; counted).
    A share within float noise of thr allows both decisions.  thr = 0: floor / ceil / at least one frame."""
    out = set()
    for x0 in _positions(xs):
        for x1 in _positions(xe):
            a, E = math.floor(x0), math.ceil(x1)
            if thr == 0:
                out.add((a, max(E, a + 1)))
                continue
            occ_s = a + 1 - x0
            near = abs(occ_s - thr) <= NOISE * max(1, abs(x0))
            for sf in ({a, a + 1} if near else {a} if occ_s >= thr else {a + 1}):
                l = E - 1
                if l <= sf:
                    out.add((sf, sf + 1))
                    continue
                occ_e = x1 - l
                if abs(occ_e - thr) <= NOISE * max(1, abs(x1)):
                    efs = {E, E - 1}
                elif occ_e >= thr:
                    efs = {E}
                elif l == sf + 1:
                    efs = {E - 1}
                    ENC_COVER['occupancy: under-occupied last frame right after the first frame (judged)'] += 1
                else:
                    efs = {E, E - 1}
                    ENC_COVER['occupancy: under-occupied last frame of a longer note (documentation and code differ; not judged)'] += 1
                for ef in efs:
                    out.add((sf, max(ef, sf + 1)))
    return out


def oracle_enc(sl, case):
    """active frames / onset window / velocities / ignored pitches / roll length, for the plain
    configuration the statement talks about (occupancy 0, overlapping onsets, no blank frame)."""
    kw = enc_kw(case)
    notes, fps = case['notes'], F(case['fps'])
    total, minp, maxp = F(case['total']), case['min_pitch'], case['max_pitch']
    wellformed = (all(0 <= s <= e <= case['total'] for _, _, s, e in notes) and case['total'] >= 0 and maxp >= minp - 1
                  and all(1 <= v for _, v, _, _ in notes) and kw['max_velocity'] > 0
                  and all(0 <= t_ and 0 <= num < 128 for t_, num, _ in case.get('ccs', []))
                  and kw['onset_window'] >= 0 and kw['onset_length_ms'] >= 0 and kw['offset_length_ms'] >= 0
                  and 0 <= kw['min_frame_occupancy_for_label'] <= 1)
    if not wellformed:
        return None
    inrange = [n for n in notes if minp <= n[0] <= maxp]
    expect_err = kw['onset_mode'] not in MODES and inrange or any(v > kw['max_velocity'] for _, v, _, _ in inrange)
    # every exception on a well-formed input is a failure, whatever the configuration (F-C18-2/3/4 were such
    # crashes); the only exceptions the statement allows are the two documented ValueErrors
    try:
        pr = enc_call(sl, case)
    except ValueError as e:
        return None if expect_err else 'ValueError on a well-formed input: %s' % e
    except Exception as e:  # pylint: disable=broad-except
        return 'unexpected %s on a well-formed input: %s' % (type(e).__name__, e)
    if expect_err:
        return 'no ValueError although a velocity exceeds max_velocity / the onset mode is unknown'
    rows, cols = pr.active.shape
    for name in pr._fields:
        a = getattr(pr, name)
        if a.shape[0] != rows or (name != 'control_changes' and a.shape != (rows, cols)):
            return 'roll %s has shape %s, active has %s' % (name, a.shape, (rows, cols))
    if cols != maxp - minp + 1:
        return 'roll has %d pitch columns for [%d,%d]' % (cols, minp, maxp)
    x = total * fps
    k = math.floor(x + F(1, 2))
    want_rows = {math.floor(x) + 1} | ({k, k + 1} if abs(x - k) <= NOISE * max(1, abs(x)) else set())
    if rows not in want_rows:
        return 'roll has %d frames, total_time*fps+1 = %s' % (rows, float(x + 1))
    plain = (kw['min_frame_occupancy_for_label'] == 0 and kw['onset_overlap'] and not kw['add_blank_frame_before_onset'])
    if (kw['min_frame_occupancy_for_label'] == 0 and kw['onset_overlap'] and kw['add_blank_frame_before_onset']):
        # statement of enc_active_cell_blank, re-evaluated: a cell is 1 iff a note paints it and no note later in
        # start order has it as the frame before its first frame.  Judged when no frame position is ambiguous.
        spans = []
        for p, v, s, e in sorted(inrange, key=lambda n: n[2]):
            so, eo = frame_options(F(s) * fps, True), frame_options(F(e) * fps, False)
            if len(so) != 1 or len(eo) != 1:
                return None
            a, b = next(iter(so)), next(iter(eo))
            spans.append((p - minp, a, max(b, a + 1)))
        exp = np.zeros((rows, cols), dtype=bool)
        for i, (c, a, b) in enumerate(spans):
            for f in range(max(a, 0), min(b, rows)):
                if not any(c2 == c and a2 - 1 == f for c2, a2, _ in spans[i + 1:]):
                    exp[f, c] = True
        act = pr.active > 0
        if (exp != act).any():
            f, c = np.argwhere(exp != act)[0]
            return ('blank frames: frame %d pitch %d is %s, but %s' % (
                f, c + minp, 'active' if act[f, c] else 'silent',
                'a later note starts right after it' if act[f, c] else 'a note paints it and no later note blanks it'))
        return None
    thr = F(kw['min_frame_occupancy_for_label'])
    if not (kw['onset_overlap'] and not kw['add_blank_frame_before_onset']):
        return None
    if thr > 0:
        ENC_COVER['occupancy > 0: active frames judged'] += 1
    # active frames: union over in-range notes of [floor(s*fps), max(ceil(e*fps), start+1)); with an occupancy
    # threshold the first / last frame only when the note covers at least that share of it (span_options)
    must = np.zeros((rows, cols), dtype=bool)
    may = np.zeros((rows, cols), dtype=bool)
    for p, v, s, e in inrange:
        spans = sorted(span_options(F(s) * fps, F(e) * fps, thr))
        lo, hi = max(a for a, _ in spans), min(b for _, b in spans)
        must[max(lo, 0):max(hi, 0), p - minp] = True
        may[max(min(a for a, _ in spans), 0):max(max(b for _, b in spans), 0), p - minp] = True
    act = pr.active > 0
    if (must & ~act).any():
        f, c = np.argwhere(must & ~act)[0]
        return 'frame %d pitch %d not active although a note covers it%s' % (f, c + minp, ' to at least min_frame_occupancy_for_label = %r' % kw['min_frame_occupancy_for_label'] if thr > 0 else '')
    if (act & ~may).any():
        f, c = np.argwhere(act & ~may)[0]
        return 'frame %d pitch %d active although no note covers it%s' % (f, c + minp, ' to at least min_frame_occupancy_for_label = %r' % kw['min_frame_occupancy_for_label'] if thr > 0 else '')
    if ((pr.active != 0) & (pr.active != 1)).any():
        return 'active roll has a value other than 0/1'
    # velocities: in (0,1] exactly where active; value = velocity/max_velocity of a covering note
    av = pr.active_velocities
    if ((av > 0) != act).any():
        f, c = np.argwhere((av > 0) != act)[0]
        return 'velocity roll and active roll differ at frame %d pitch %d' % (f, c + minp)
    if (av > 1).any() or (av < 0).any():
        return 'velocity outside [0,1]'
    for f, c in np.argwhere(act)[:400]:
        cands = set()
        for p, v, s, e in inrange:
            if p - minp == c:
                cands.add(float(np.float32(v / kw['max_velocity'])))
        if float(av[f, c]) not in cands:
            return 'velocity %r at frame %d pitch %d is not velocity/max_velocity of a note of that pitch' % (float(av[f, c]), f, c + minp)
    # onsets (window mode): [f0-w, f0+w] ∩ [0, rows) around the (delayed) first frame
    d = F(float(kw['onset_delay_ms']) / 1000.0)
    if thr > 0 and any(F(s) + d < 0 for _, _, s, _ in inrange):
        return None           # an onset before time 0 under an occupancy threshold: not specified anywhere
    if kw['onset_mode'] == 'length_ms':
        # "Length in milliseconds for the onset": the onset label covers the frames of the interval that begins at the
        # (delayed) note start and lasts onset_length_ms, but never beyond the (delayed) end of the note - an onset is
        # part of its note -, at least one frame, cut to the roll
        L = F(float(kw['onset_length_ms']) / 1000.0)
        must[:] = False
        may[:] = False
        for p, v, s, e in inrange:
            os_, oe_ = F(s) + d, min(F(e) + d, F(s) + d + L)
            spans = set(span_options(os_ * fps, oe_ * fps, thr))
            if os_ < 0:
                for x0 in _positions(os_ * fps):
                    for x1 in _positions(oe_ * fps):
                        spans.add((math.ceil(x0), max(math.ceil(x1), math.ceil(x0) + 1)))   # int() truncates toward zero
            ENC_COVER['length_ms onset: %s' % ('note shorter than onset_length_ms (clamped to the note end)' if F(e) - F(s) < L else
                                                'onset_length_ms == note length' if F(e) - F(s) == L else 'onset shorter than the note')] += 1
            lo, hi = max(a for a, _ in spans), min(b for _, b in spans)
            must[max(lo, 0):max(hi, 0), p - minp] = True
            may[max(min(a for a, _ in spans), 0):max(max(b for _, b in spans), 0), p - minp] = True
        on = pr.onsets > 0
        if (must & ~on).any():
            f, c = np.argwhere(must & ~on)[0]
            return 'length_ms onset missing at frame %d pitch %d (onset_length_ms = %r)' % (f, c + minp, kw['onset_length_ms'])
        if (on & ~may).any():
            f, c = np.argwhere(on & ~may)[0]
            return ('length_ms onset at frame %d pitch %d lies outside [note start, min(note end, start + onset_length_ms = %r ms)) of every note '
                    'of that pitch' % (f, c + minp, kw['onset_length_ms']))
        if ((pr.onset_velocities > 0) & ~on).any():
            return 'onset velocity without onset'
    if kw['onset_mode'] == 'window':
        w = kw['onset_window']
        must[:] = False
        may[:] = False
        for p, v, s, e in inrange:
            so = {a for a, _ in span_options((F(s) + d) * fps, (F(e) + d) * fps, thr)}
            if F(s) + d < 0:
                so = so | {math.ceil((F(s) + d) * fps)}    # int() truncates toward zero before frame 0
            for a in so:
                may[max(a - w, 0):max(a + w + 1, 0), p - minp] = True
            lo, hi = max(a - w for a in so), min(a + w + 1 for a in so)
            must[max(lo, 0):max(hi, 0), p - minp] = True
        on = pr.onsets > 0
        if (must & ~on).any():
            f, c = np.argwhere(must & ~on)[0]
            return 'onset missing at frame %d pitch %d' % (f, c + minp)
        if (on & ~may).any():
            f, c = np.argwhere(on & ~may)[0]
            return 'onset at frame %d pitch %d outside every note\'s onset window' % (f, c + minp)
        ov = pr.onset_velocities
        if ((ov > 0) & ~on).any():
            return 'onset velocity without onset'
    return None


def runs_of(col):
    out, f, n = [], 0, len(col)
    while f < n:
        if col[f]:
            g = f
            while g < n and col[g]:
                g += 1
            out.append((f, g))
            f = g
        else:
            f += 1
    return out


def spec_segments(case):
    """the statement's reading of the decoder, pitch by pitch: (pitch index, start frame, end frame, onset frame or None)"""
    n, w = len(case['frames']), case['w']
    on, off = case.get('onsets'), case.get('offsets')
    segs = []
    for c in range(w):
        col = [(case['frames'][f][c] or (on is not None and on[f][c])) and not (off is not None and off[f][c]) for f in range(n)]
        for a, b in runs_of(col):
            if on is None:
                segs.append((c, a, b, None))
                continue
            first = next((f for f in range(a, b) if on[f][c]), None)
            if first is None:
                continue
            cuts = [first] + [f for f in range(first + 1, b) if on[f][c] and not on[f - 1][c]] + [b]
            for s, e in zip(cuts, cuts[1:]):
                segs.append((c, s, e, s))
    return segs


def _pow2(q):
    return q > 0 and q.numerator & (q.numerator - 1) == 0 and q.denominator & (q.denominator - 1) == 0


DEC_COVER = collections.Counter()


def oracle_dec(sl, case):
    kw = dec_kw(case)
    if not case['frames'] or not case['fps'] or case['w'] > 128 or case['fps'] < 0:
        return None
    try:
        ns = dec_call(sl, case)
    except Exception as e:  # pylint: disable=broad-except
        return 'unexpected %s: %s' % (type(e).__name__, e)
    fps = F(case['fps'])
    n = len(case['frames'])
    mind = F(kw['min_duration_ms'])
    # "drops only notes shorter than min_duration_ms": judged exactly whenever the frame length 1/fps is a binary
    # fraction (8/16/32 fps: every float operation of the duration test is exact); at the other rates the run must be
    # kept / dropped outside the margins PROVED for every IEEE-like rounding (Props/C18B.lean: keepR_float_kept,
    # keepR_float_dropped; u = 2^-53) — e.g. the 20 ms run [1,3) at 100 fps against min_duration_ms = 20 evaluates to
    # 19.999999999999996 and is dropped, which is inside the margin
    exact_rate = _pow2(fps)
    u = F(1, 2**53)
    segs = spec_segments(case)
    # "drops ONLY notes shorter than min_duration_ms", judged on the note times the function itself REPORTS: the same
    # roll decoded with min_duration_ms = 0 gives every run with its start / end time; a run must be kept iff the
    # duration of that note, (end_time - start_time) * 1000 in binary64 (the documented formula, harness/meta/C18.json),
    # is >= min_duration_ms, and a kept note must carry exactly the times / velocity it has without the threshold.
    ref = {}
    if mind > 0:
        try:
            ns0 = dec_call(sl, dict(case, kw=dict(case.get('kw', {}), min_duration_ms=0)))
            for nt in ns0.notes:
                i, j = math.floor(F(nt.start_time) * fps + F(1, 2)), math.floor(F(nt.end_time) * fps + F(1, 2))
                ref[(nt.pitch - kw['min_midi_pitch'], i, j)] = nt
        except Exception as e:  # pylint: disable=broad-except
            return 'unexpected %s with min_duration_ms = 0: %s' % (type(e).__name__, e)
    got = {}
    for nt in ns.notes:
        xs, xe = F(nt.start_time) * fps, F(nt.end_time) * fps
        i, j = math.floor(xs + F(1, 2)), math.floor(xe + F(1, 2))
        if abs(xs - i) > NOISE * max(1, i) or abs(xe - j) > NOISE * max(1, j):
            return 'note time %r/%r is not a frame boundary' % (nt.start_time, nt.end_time)
        key = (nt.pitch - kw['min_midi_pitch'], i, j)
        if key in got:
            return 'two notes for the same run %s' % (key,)
        got[key] = nt
    for c, s, e, onf in segs:
        dur = F(e - s) / fps * 1000
        present = (c, s, e) in got
        if exact_rate:
            keep_if, drop_if = dur >= mind, dur < mind
        else:
            keep_if = mind <= (1 - u) ** 3 * (F(e - s) - F(e + s) * u) * 1000 / fps
            drop_if = (1 + u) ** 3 * (F(e - s) + F(e + s) * u) * 1000 / fps < mind
        r0 = ref.get((c, s, e))
        if r0 is not None:
            rep_ms = (r0.end_time - r0.start_time) * 1000          # binary64, as a caller computes the note's duration
            exact_ms = (F(r0.end_time) - F(r0.start_time)) * 1000
            want = rep_ms >= kw['min_duration_ms']
            DEC_COVER['reported duration %s min_duration_ms' % ('==' if rep_ms == kw['min_duration_ms'] else '<' if not want else '>')] += 1
            if (exact_ms >= mind) != want:
                DEC_COVER['binary64 duration and exact duration of the reported times fall on different sides'] += 1
            if present != want:
                return ('run pitch %d frames [%d,%d): the note reported without threshold is %r..%r, i.e. (end - start) * 1000 = %r ms '
                        '(exact difference of the two doubles minus the threshold: %.3g ms), min_duration_ms = %r: %s but must be %s' % (
                            c, s, e, r0.start_time, r0.end_time, rep_ms, float(exact_ms - mind), kw['min_duration_ms'],
                            'kept' if present else 'DROPPED', 'kept' if want else 'dropped'))
            if present:
                g = got[(c, s, e)]
                if (g.start_time, g.end_time, g.velocity) != (r0.start_time, r0.end_time, r0.velocity):
                    return 'run pitch %d frames [%d,%d): min_duration_ms = %r changed the note itself (%r..%r vel %d, without threshold %r..%r vel %d)' % (
                        c, s, e, kw['min_duration_ms'], g.start_time, g.end_time, g.velocity, r0.start_time, r0.end_time, r0.velocity)
        if keep_if and not present:
            return 'run pitch %d frames [%d,%d) (%s ms) has no note, min_duration_ms = %r' % (c, s, e, float(dur), kw['min_duration_ms'])
        if drop_if and present:
            return 'run pitch %d frames [%d,%d) (%s ms) shorter than min_duration_ms = %r kept' % (c, s, e, float(dur), kw['min_duration_ms'])
        if present:
            nt = got.pop((c, s, e))
            if onf is not None and case.get('vels') is not None:
                _, _, _, v = dec_arrays(case)
                val = F(float(v[onf, c]))
                val = min(max(val, F(0)), F(1))
                x = val * F(kw['velocity_scale']) + F(kw['velocity_bias'])
                ok = {math.floor(x)} if x >= 0 else {math.ceil(x)}
                kk = math.floor(x + F(1, 2))
                if abs(x - kk) <= F(1, 10**5):
                    ok |= {kk, kk - 1}
                if nt.velocity not in ok:
                    return 'velocity %d for value %r (scale %r bias %r)' % (nt.velocity, float(v[onf, c]), kw['velocity_scale'], kw['velocity_bias'])
            elif nt.velocity != kw['velocity']:
                return 'velocity %d, default is %d' % (nt.velocity, kw['velocity'])
    if got:
        return 'note %s does not correspond to a run' % (sorted(got)[0],)
    xt = F(ns.total_time) * fps
    if abs(xt - (n + 1)) > NOISE * (n + 1):
        return 'total_time %r is not (frames+1)/fps' % ns.total_time
    return None


def _unscaled_ok(val, scale, bias):
    """the MIDI velocities `_unscale_velocity` may give for the exact value `val`: int(clip(val,0,1)*scale+bias),
    with both neighbours allowed when the exact result is within 1e-5 of an integer (float32 / float64 products)"""
    val = min(max(val, F(0)), F(1))
    x = val * F(scale) + F(bias)
    ok = {math.floor(x)} if x >= 0 else {math.ceil(x)}
    kk = math.floor(x + F(1, 2))
    if abs(x - kk) <= F(1, 10**5):
        ok |= {kk, kk - 1}
    return ok


def oracle_ons(sl, case):
    """onset-only decoding (statement of Props/C18B.lean onsets_decode, re-evaluated with Fractions): one note per
    cell holding a 1, row-major order, start = frame/fps, length = note_duration_seconds, pitch = index +
    min_midi_pitch, velocity = _unscale_velocity(value) where the value is velocity_values[f, p] or — without
    velocity values — the `velocity` argument itself; total_time = frames/fps + note_duration_seconds."""
    kw = dec_kw(case)
    if not case['fps'] or case['fps'] < 0:
        return None
    try:
        ns = ons_call(sl, case)
    except Exception as e:  # pylint: disable=broad-except
        return 'unexpected %s: %s' % (type(e).__name__, e)
    fps = F(case['fps'])
    want = [(c, f) for f, row in enumerate(case['frames']) for c, b in enumerate(row) if b]
    if len(want) != len(ns.notes):
        return '%d notes for %d onsets' % (len(ns.notes), len(want))
    v = dec_arrays(case)[3] if case.get('vels') is not None else None
    for (c, f), nt in zip(want, ns.notes):
        xs = F(nt.start_time) * fps
        if nt.pitch != c + kw['min_midi_pitch'] or abs(xs - f) > NOISE * max(1, f):
            return 'onset (%d,%d) gave note pitch %d start %r' % (f, c, nt.pitch, nt.start_time)
        if abs(F(nt.end_time) - F(nt.start_time) - F(case['dur'])) > NOISE * max(1, F(nt.end_time)):
            return 'note duration is not note_duration_seconds'
        val = F(float(v[f, c])) if v is not None else F(kw['velocity'])
        if nt.velocity not in _unscaled_ok(val, kw['velocity_scale'], kw['velocity_bias']):
            return 'onset (%d,%d): velocity %d for value %r (scale %r bias %r)' % (
                f, c, nt.velocity, float(val), kw['velocity_scale'], kw['velocity_bias'])
        if nt.end_time > ns.total_time:
            return 'note ends after total_time'
    n = len(case['frames'])
    xt = F(ns.total_time) - F(case['dur'])
    if abs(xt * fps - n) > NOISE * max(1, n):
        return 'total_time %r is not frames/fps + note_duration_seconds' % ns.total_time
    return None


def gen_rt_roll(rng, fps=None, deep=False):
    fps = fps if fps is not None else gen_fps(rng, extra=0.0)
    n = rng.choice([1, 3, 8, 16, 40, 64, 64])
    w = rng.choice([1, 2, 5, 16])
    base = rng.choice([0, 0, 0, 100, 1000])     # same roll further into a piece: frames base..base+n
    if deep:
        n, w, base = rng.choice([16, 64]), 1, rng.choice([10000, 30000, 100000])
    frames = gen_bool_matrix(rng, n, w, rng.choice(['runs', 'dense', 'iid', 'sparse']))
    # a note on the frame grid occupies 100 % of each of its frames, so by the documented meaning of
    # min_frame_occupancy_for_label ("a note must occupy at least this share of a frame") every threshold in [0,1]
    # must give the same roll
    return {'kind': 'rt_roll', 'fps': fps, 'w': w, 'frames': frames, 'base': base, 'min_pitch': rng.choice([21, 60, 0]),
            'occ': rng.choice([0.0, 0.0, 0.5, 1.0])}


def oracle_rt_roll(sl, case):
    """decode then encode is the identity on a boolean roll (plus silent frames at the end)."""
    n, w, base = len(case['frames']), case['w'], case.get('base', 0)
    frames = [[False] * w for _ in range(base)] + case['frames']
    full = dict(case, frames=frames, kw={'min_midi_pitch': case['min_pitch']})
    try:
        ns = dec_call(sl, full)
        pr = pure_call(case, sl.sequence_to_pianoroll, ns, case['fps'], case['min_pitch'], case['min_pitch'] + w - 1,
                       min_frame_occupancy_for_label=case.get('occ', 0.0))
    except Exception as e:  # pylint: disable=broad-except
        return 'unexpected %s: %s' % (type(e).__name__, e)
    act = pr.active > 0
    want = np.array(frames, dtype=bool).reshape(base + n, w)
    if act.shape[0] not in (base + n + 1, base + n + 2) or act.shape[1] != w:
        return 'round trip roll has shape %s for a %dx%d roll' % (act.shape, base + n, w)
    if not np.array_equal(act[:base + n], want):
        f, c = np.argwhere(act[:base + n] != want)[0]
        return 'decode->encode changed frame %d pitch index %d (%s -> %s) at %r fps' % (f, c, want[f, c], act[f, c], case['fps'])
    if act[base + n:].any():
        return 'decode->encode activated a frame past the end of the roll'
    return None


def gen_rt_notes(rng, fps=None, deep=False):
    fps = fps if fps is not None else gen_fps(rng, extra=0.0)
    w = rng.choice([1, 3, 8, 16])
    minp = rng.choice([21, 60])
    base = rng.choice([0, 0, 50, 2000])
    if deep:
        w, base = 1, rng.choice([10000, 30000, 100000])
    notes = []
    for c in range(w):
        f = base + rng.randrange(0, 4)
        for _ in range(rng.randrange(0, 6) + (3 if deep else 0)):
            ln = rng.randrange(1, 8)
            notes.append([minp + c, rng.randrange(1, 128), f * (1 / fps), (f + ln) * (1 / fps)])
            f += ln + rng.randrange(1, 4)       # at least one silent frame
    rng.shuffle(notes)
    maxend = max([n[3] for n in notes] + [0.0])
    total = maxend if rng.random() < 0.6 else maxend + rng.randrange(1, 3) * (1 / fps)
    return {'kind': 'rt_notes', 'fps': fps, 'min_pitch': minp, 'max_pitch': minp + w - 1, 'total': total, 'notes': notes,
            'kw': {'min_frame_occupancy_for_label': rng.choice([0.0, 0.0, 0.5, 1.0])}}


def oracle_rt_notes(sl, case):
    """encode then decode gives back the grid notes (pitch, start, end)."""
    try:
        pr = enc_call(sl, case)
        ns = pure_call(case, sl.pianoroll_to_note_sequence, pr.active, case['fps'], 0, min_midi_pitch=case['min_pitch'])
    except Exception as e:  # pylint: disable=broad-except
        return 'unexpected %s: %s' % (type(e).__name__, e)
    a = sorted((p, s, e) for p, _, s, e in case['notes'])
    b = sorted((n.pitch, n.start_time, n.end_time) for n in ns.notes)
    if a != b:
        d = sorted(set(a) ^ set(b))[:2]
        return 'encode->decode changed the notes at %r fps: %s' % (case['fps'], d)
    return None


def shrink(sl, c):
    """a smaller input on which the same oracle still fails (a single note / a single pitch column), else the input itself"""
    try:
        if c['kind'] == 'enc' and len(c['notes']) > 1:
            for nt in c['notes']:
                c2 = dict(c, notes=[nt], ccs=[])
                if oracle_enc(sl, c2):
                    return c2
            notes = list(c['notes'])
            i = 0
            while i < len(notes) and len(notes) > 1:
                c2 = dict(c, notes=notes[:i] + notes[i + 1:])
                if oracle_enc(sl, c2):
                    notes = c2['notes']
                else:
                    i += 1
            return dict(c, notes=notes)
        if c['kind'] == 'dec' and c['w'] > 1 and c['frames']:
            for col in range(c['w']):
                c2 = dict(c, w=1, kw=dict(c.get('kw', {})))
                for key in ('frames', 'onsets', 'offsets', 'vels'):
                    if c.get(key) is not None:
                        c2[key] = [[row[col]] for row in c[key]]
                if oracle_dec(sl, c2):
                    n = len(c2['frames'])
                    while n > 1:
                        c3 = dict(c2)
                        for key in ('frames', 'onsets', 'offsets', 'vels'):
                            if c2.get(key) is not None:
                                c3[key] = c2[key][:n - 1]
                        if not oracle_dec(sl, c3):
                            break
                        c2, n = c3, n - 1
                    return c2
    except Exception:  # pylint: disable=broad-except
        pass
    return c


def _canon(kind, out):
    return enc_line(out) if kind == 'enc' else notes_line(out) + ' | ' + out.SerializeToString(deterministic=True).hex()


def _scribble(kind, out):
    """what a caller post-processing ITS result does: every roll rewritten in place / the NoteSequence edited"""
    if kind == 'enc':
        for a in out:
            a[...] = a * 0.5 + 3
    else:
        for nt in out.notes:
            nt.pitch, nt.velocity, nt.start_time, nt.end_time = 1, 2, nt.start_time + 1.0, nt.end_time + 2.0
        out.notes.add(pitch=9, velocity=9, start_time=0.0, end_time=99.0)
        out.total_time += 5.0


def oracle_history(sl, h):
    """call history in one process: case A, its result rewritten in place, (another case B of the same function,) case A
    again with equal arguments - the second answer for A must be the first one (as it was before it was rewritten), be made
    of new objects, and share no memory with the first; judged by comparing the function with itself, so it only speaks
    about state carried between calls (memoised results, defaults written in place, buffers reused)"""
    a, b = h['a'], h.get('b')
    kind = a['kind']
    call = {'enc': enc_call, 'dec': dec_call, 'ons': ons_call}[kind]
    try:
        r1 = call(sl, a)
    except Exception as e1:  # pylint: disable=broad-except
        r1, err1 = None, type(e1).__name__
    else:
        err1 = None
    line1 = _canon(kind, r1) if r1 is not None else 'err ' + err1
    if r1 is not None:
        _scribble(kind, r1)
    if b is not None:
        try:
            rb = call(sl, b)
            _scribble(kind, rb)
        except Exception:  # pylint: disable=broad-except
            pass
    try:
        r2 = call(sl, a)
    except Exception as e2:  # pylint: disable=broad-except
        r2, line2 = None, 'err ' + type(e2).__name__
    else:
        line2 = _canon(kind, r2)
    if line1 != line2:
        i = next((k for k, (x, y) in enumerate(zip(line1, line2)) if x != y), min(len(line1), len(line2)))
        return ('the same arguments gave a different result the second time (first result rewritten in place%s in between): '
                'first %s…, second %s…' % (', another call' if b is not None else '', line1[max(0, i - 40):i + 60], line2[max(0, i - 40):i + 60]))
    if r1 is not None and r2 is not None:
        if r2 is r1:
            return 'the second call returned the very object the first call returned'
        if kind == 'enc':
            for n1, x in zip(r1._fields, r1):
                for n2, y in zip(r2._fields, r2):
                    if x is y or (x.size and y.size and np.shares_memory(x, y)):
                        return 'roll %s of the second call shares memory with roll %s of the first call' % (n2, n1)
            for i, x in enumerate(r2):
                for j, y in enumerate(r2):
                    if i < j and x.size and np.shares_memory(x, y):
                        return 'rolls %s and %s of one result share memory' % (r2._fields[i], r2._fields[j])
    return None


def oracle_purity(sl, h):
    n0 = len(IMPURE)
    c = h['case']
    ORACLES[c['kind']](sl, c)
    return IMPURE[n0][0] if len(IMPURE) > n0 else None


ORACLES = {'enc': oracle_enc, 'dec': oracle_dec, 'ons': oracle_ons, 'rt_roll': oracle_rt_roll, 'rt_notes': oracle_rt_notes,
           'history': oracle_history, 'purity': oracle_purity}
REQUEST = {'enc': enc_request, 'dec': dec_request, 'ons': ons_request}
IMPL = {'enc': enc_impl, 'dec': dec_impl, 'ons': ons_impl}


# ----------------------------------------------------------------------------- run
P, E, FL, DC, EC = ('NoteSeqVerif.Props.C18', 'NoteSeqVerif.Proofs.C18Enc', 'NoteSeqVerif.Proofs.C18Float',
                     'NoteSeqVerif.Proofs.C18Dec', 'NoteSeqVerif.Proofs.C18EncC')
ED, ON, PB = 'NoteSeqVerif.Proofs.C18EncD', 'NoteSeqVerif.Proofs.C18Ons', 'NoteSeqVerif.Props.C18B'
PC = 'NoteSeqVerif.Props.C18C'
MODULES = [FL, E, EC, DC, P, ED, ON, PB, PC]
THEOREMS = [
    # float layer: no drift for every rounding operator with the IEEE properties, every fps > 0, k < 2^31
    (FL, 'NSV.C18.rounding_id'), (FL, 'NSV.C18.grid_near'), (FL, 'NSV.C18.timeToFrames_grid'),
    (FL, 'NSV.C18.numRows_grid'), (P, 'NSV.C18.snap_eps_ok'),
    # encoder: cell formulas of the active / onset / velocity rolls, frame arithmetic, rejections, length
    (E, 'NSV.C18.enc_active_cell'), (P, 'NSV.C18.frames_of_note'), (P, 'NSV.C18.noteFrames_window'),
    (P, 'NSV.C18.noteFrames_length'), (P, 'NSV.C18.enc_onset_cell'), (P, 'NSV.C18.enc_velocity_cell'),
    (P, 'NSV.C18.velocity_scaled_range'), (P, 'NSV.C18.roll_length'), (P, 'NSV.C18.encode_ok_valid'),
    (P, 'NSV.C18.encode_unknown_mode'),
    # encoder, continued: no exception on well-formed input (the converse of the two rejections; F-C18-2/3/4 were
    # counterexamples), per-note weights step, offsets / weights / control-change rolls cell by cell, remaining sizes
    (EC, 'NSV.C18.paintNote_defined'), (EC, 'NSV.C18.paintNote_weights_cell'), (P, 'NSV.C18.encode_defined'),
    (P, 'NSV.C18.enc_offset_cell'), (P, 'NSV.C18.enc_weights_cell'), (P, 'NSV.C18.enc_cc_cell'),
    (P, 'NSV.C18.roll_size'),
    # decoder: per-pitch decomposition, run decoding, onset-aware decoding, emission order
    (DC, 'NSV.C18.scan_column'), (DC, 'NSV.C18.colScan_runs'), (DC, 'NSV.C18.colScan_onsets'),
    (DC, 'NSV.C18.scan_sorted'), (DC, 'NSV.C18.maxRun_of_separated'),
    (P, 'NSV.C18.runs_decode'), (P, 'NSV.C18.onset_decode'),
    # the two conversions are mutually inverse on the grid: any rounding with grid exactness, every Rounding R, exact
    (P, 'NSV.C18.roll_roundtrip_of_grid'), (P, 'NSV.C18.roll_roundtrip_float'), (P, 'NSV.C18.roll_roundtrip'),
    (P, 'NSV.C18.roll_roundtrip_notes_of_grid'), (P, 'NSV.C18.roll_roundtrip_notes_float'),
    # onset-only decoding: closed form over the onset matrix (order, times, pitch, velocity, total_time), one note per
    # onset cell, no exception on rectangular input, the closing assertion cannot fire
    (ON, 'NSV.C18.onsetRow_eq'), (ON, 'NSV.C18.onsetRows_eq'),
    (PB, 'NSV.C18.onsets_decode'), (PB, 'NSV.C18.onsets_decode_defined'), (PB, 'NSV.C18.onsets_decode_cells'),
    (PB, 'NSV.C18.onsets_decode_total_ge'),
    # active roll for either setting of add_blank_frame_before_onset: per-note step, the fold, "painted and not blanked
    # later", closed form under separation; weights roll as last writer wins
    (ED, 'NSV.C18.paintNote_active_cell'), (ED, 'NSV.C18.Blanks_not_covers'), (ED, 'NSV.C18.foldl_blank_cover'),
    (PB, 'NSV.C18.enc_active_fold'), (PB, 'NSV.C18.enc_active_cell_blank'), (PB, 'NSV.C18.enc_active_cell_sep'),
    (PB, 'NSV.C18.enc_active_cell_of_noblank'), (PB, 'NSV.C18.enc_weights_cell_last'),
    # both round trips with add_blank_frame_before_onset arbitrary
    (PB, 'NSV.C18.roll_roundtrip_of_grid_anyblank'), (PB, 'NSV.C18.roll_roundtrip_float_anyblank'),
    (PB, 'NSV.C18.roll_roundtrip_notes_of_grid_anyblank'), (PB, 'NSV.C18.roll_roundtrip_notes_float_anyblank'),
    # onset_velocities = velocities * onsets; (0,1] range of both velocity rolls
    (PB, 'NSV.C18.enc_onset_velocity_cell'), (PB, 'NSV.C18.active_velocity_range'), (PB, 'NSV.C18.onset_velocity_range'),
    # exactly which runs the decoder drops: in the code's float order for every R, in exact arithmetic, and the
    # 2^-53-relative margins for every Rounding R
    (PB, 'NSV.C18.dec_drops_exactly'), (PB, 'NSV.C18.keepR_exact'), (PB, 'NSV.C18.dec_drops_exact_id'),
    (PB, 'NSV.C18.keepR_float_kept'), (PB, 'NSV.C18.keepR_float_dropped'),
    # the decision is the binary64 duration of the REPORTED note; min_frame_occupancy_for_label in exact arithmetic:
    # first frame, last frame right after it (documented meaning), last frame of longer notes (never removed), and the
    # three-frame scenario in closed form
    (PC, 'NSV.C18.keepR_reported'), (PC, 'NSV.C18.framesFromTimes_id'), (PC, 'NSV.C18.occ_first_frame'),
    (PC, 'NSV.C18.occ_last_frame_adjacent'), (PC, 'NSV.C18.occ_last_frame_far'), (PC, 'NSV.C18.occ_three_frames'),
]


def _quiet():
    try:
        from absl import logging as alog
        alog.set_verbosity(alog.FATAL)
    except Exception:  # pylint: disable=broad-except
        pass
    import logging
    logging.getLogger().setLevel(logging.CRITICAL)
    import warnings
    warnings.filterwarnings('ignore')


def run(chk):
    _quiet()
    from note_seq import sequences_lib as sl
    generate(chk)
    chk.prove(MODULES, THEOREMS, [EXE], extra_trusted=[
        'rne53 / rne24 as models of IEEE-754 binary64 / binary32 arithmetic (validated bit-exactly by every request of this run)',
        'numpy semantics transcribed in the model: basic slicing with negative / out-of-range bounds, broadcasting of a '
        'list assigned to a slice, integer indexing errors, np.nonzero order, NEP-50 scalar arithmetic of float32 values',
        'CPython round() = round-half-even, sorted() stability'])
    chk.prove_bridge([BRIDGE], [(BRIDGE, t) for t in BRIDGE_THEOREMS])
    chk.rule = ('enc: generated sequences (0-30 notes, pitches across and beyond [min_pitch,max_pitch], start/end times from '
                'decoder-style grid k*(1/fps), k/fps, +-ulps, the edges of the 1e-9 snap window, half/fractional frames, arbitrary '
                'doubles; fps in {8,16,31.25,32,50,62.5,100} plus a few others; both onset modes, windows, onset/offset lengths, '
                'positive and negative delays, occupancies, blank frame, non-overlapping onsets, control changes; in 1 of 5 a note '
                'beginning at total_time / inside the last frame combined with those options) — all seven rolls '
                'compared cell by cell with the Lean model; dec/ons: boolean frame/onset/offset matrices up to 64x16 with float32/'
                'float64 velocity values, min durations at frame multiples — notes compared in emission order with exact times; '
                'non-trivial = distinct request whose result is a roll / note list / modelled exception')
    cases = []      # (stream, case, hist)
    for name, obj in corpus_cases(PID):
        c = obj.get('input', obj)
        cases.append(('corpus', c, {'corpus:' + name}))
    rng = chk.subrng('enc')
    for _ in range(chk.n(1500, 40000)):
        c, h = gen_enc_case(rng)
        cases.append(('enc', c, h))
    rng = chk.subrng('enc-scenarios')
    for _ in range(chk.n(400, 4000)):
        c, h = gen_occ_case(rng) if rng.random() < 0.5 else gen_onset_len_case(rng)
        cases.append(('enc', c, h))
    rng = chk.subrng('dec')
    for _ in range(chk.n(1500, 40000)):
        c, h = gen_dec_case(rng)
        cases.append(('dec', c, h))
    rng = chk.subrng('mindur')
    for fps in FPS:
        for k in range(1, 57):            # every run length at every rate of the quantifier, threshold = nominal length
            c, h = mindur_case(rng, int(fps) if float(fps).is_integer() and k % 2 else float(fps), k)
            cases.append(('dec', c, h))
    for _ in range(chk.n(300, 3000)):
        c, h = mindur_case(rng, gen_fps(rng, extra=0.15), rng.randrange(1, 64), 'varied')
        cases.append(('dec', c, h))
    rng = chk.subrng('ons')
    for _ in range(chk.n(400, 8000)):
        c, h = gen_ons_case(rng)
        cases.append(('ons', c, h))
    rng = chk.subrng('malformed')
    for _ in range(chk.n(500, 8000)):
        c, h = gen_enc_case(rng, malformed=True) if rng.random() < 0.6 else gen_dec_case(rng, malformed=True)
        cases.append(('malformed', c, h))
    rng = chk.subrng('roundtrip')
    for i in range(chk.n(100, 1500)):
        for fps in FPS:
            deep = i % 25 == 0
            cases.append(('rt', gen_rt_roll(rng, fps, deep), {'fps:%s' % fps} | ({'deep'} if deep else set())))
            cases.append(('rt', gen_rt_notes(rng, fps, deep), {'fps:%s' % fps} | ({'deep'} if deep else set())))

    # call histories (oracle only; the model is a pure function): every corpus case and every 6th generated case is called,
    # its result rewritten in place, optionally another case of the same function is called, then the first case again
    rng = chk.subrng('history')
    base = [(i, c) for i, (_, c, _) in enumerate(cases) if c['kind'] in REQUEST]
    for j, (i, c) in enumerate(base):
        if cases[i][0] == 'corpus' or j % 6 == 0:
            nxt = base[j + 1][1] if j + 1 < len(base) and base[j + 1][1]['kind'] == c['kind'] and rng.random() < 0.5 else None
            cases.append(('history', {'kind': 'history', 'a': c, **({'b': nxt} if nxt is not None else {})},
                          {'A, scribble, A' if nxt is None else 'A, scribble, B, scribble, A', 'fn:' + c['kind']}))

    # correspondence: every enc/dec/ons request, plus both legs of every round trip
    reqs, impls, meta = [], [], []
    for stream, c, h in cases:
        legs = []
        if c['kind'] in REQUEST:
            legs.append(c)
        elif c['kind'] == 'rt_roll':
            base = c.get('base', 0)
            d = {'kind': 'dec', 'fps': c['fps'], 'w': c['w'], 'frames': [[False] * c['w'] for _ in range(base)] + c['frames'],
                 'kw': {'min_midi_pitch': c['min_pitch']}}
            legs.append(d)
            try:
                ns = dec_call(sl, d)
                legs.append({'kind': 'enc', 'fps': c['fps'], 'min_pitch': c['min_pitch'], 'max_pitch': c['min_pitch'] + c['w'] - 1,
                             'total': ns.total_time, 'notes': [[n.pitch, n.velocity, n.start_time, n.end_time] for n in ns.notes]})
            except Exception:  # pylint: disable=broad-except
                pass
        elif c['kind'] == 'rt_notes':
            legs.append(dict(c, kind='enc'))
            try:
                pr = enc_call(sl, c)
                legs.append({'kind': 'dec', 'fps': c['fps'], 'w': pr.active.shape[1], 'frames': (pr.active > 0).tolist(),
                             'kw': {'min_midi_pitch': c['min_pitch']}})
            except Exception:  # pylint: disable=broad-except
                pass
        for leg in legs:
            reqs.append(REQUEST[leg['kind']](leg))
            line, _ = IMPL[leg['kind']](sl, leg)
            impls.append(line)
            meta.append((stream, leg, h))
    model = chk.driver(EXE, reqs)
    for req, a, b, (stream, leg, h) in zip(reqs, impls, model, meta):
        res = 'result:' + (a if a.startswith('err') else 'ok')
        name = stream if stream in ('corpus', 'malformed') else leg['kind'] + ('-roundtrip' if stream == 'rt' else '')
        chk.count(name, req[:3000], b != 'bad-op', sorted(h) + [res])
        if a != b:
            chk.disagree(name, leg, a[:1500], b[:1500])
    for i in (0, len(reqs) // 3, len(reqs) - 1):
        chk.sample({'request': reqs[i][:300] + ' …', 'impl': impls[i][:200] + ' …', 'model_equal': impls[i] == model[i]})

    # oracle on the implementation (independent of the model)
    for stream, c, h in cases:
        chk.count('oracle-' + c['kind'], None, False, sorted(h) if c['kind'] == 'history' else None)
        r = ORACLES[c['kind']](sl, c)
        if r:
            c2 = shrink(sl, c)
            chk.fail(ORACLES[c2['kind']](sl, c2) or r, c2)
            if len(chk.failures) > 20:
                break
    for text, c in IMPURE[:5]:
        chk.fail(text, {'kind': 'purity', 'case': c})
    chk.count('oracle-purity', None, False, 'every call of the run: arguments compared before/after (%s)' % ('no change' if not IMPURE else 'CHANGED'))
    del IMPURE[:]
    for k_, v_ in DEC_COVER.items():
        st = chk.stream('oracle-dec')
        st['hist'][k_] = st['hist'].get(k_, 0) + v_
    DEC_COVER.clear()
    for k_, v_ in ENC_COVER.items():
        st = chk.stream('oracle-enc')
        st['hist'][k_] = st['hist'].get(k_, 0) + v_
    ENC_COVER.clear()


def replay(chk, obj):
    _quiet()
    from note_seq import sequences_lib as sl
    kind = obj.get('kind')
    print('replay C18: kind=%s fps=%r' % (kind, obj.get('fps')))
    if kind not in ORACLES:
        print('not a C18 input (no-failing-input replay?)')
        return 0
    r = ORACLES[kind](sl, obj)
    print('PROPERTY FAILS: %s' % r if r else 'property holds on this input')
    return 1 if r else 0
