"""NoteSequence <-> wire tokens (must mirror lean/NoteSeqVerif/Model/NoteSeq.lean) and a
structure-aware random NoteSequence generator shared by the sequence-operation properties."""
import hashlib
import math

from note_seq.protobuf import music_pb2

from harness.common import rat, wl

MODELLED = ['notes', 'tempos', 'time_signatures', 'key_signatures', 'text_annotations',
            'control_changes', 'pitch_bends', 'section_annotations', 'section_groups',
            'total_time', 'total_quantized_steps', 'quantization_info', 'subsequence_info',
            'ticks_per_quarter']


def hx(s):
    return 'x' + s.encode('utf-8').hex()


def unhx(t):
    return bytes.fromhex(t[1:]).decode('utf-8')


def meta_digest(ns):
    c = music_pb2.NoteSequence()
    c.CopyFrom(ns)
    for f in MODELLED:
        c.ClearField(f)
    b = c.SerializeToString(deterministic=True)
    return 'm' + hashlib.md5(b).hexdigest()[:10] if b else '-'


def _section(s):
    if s.HasField('section_group'):
        return ['G'] + _group(s.section_group)
    return ['S', str(s.section_id)]


def _group(g):
    out = [str(len(g.sections))]
    for s in g.sections:
        out += _section(s)
    out.append(str(g.num_times))
    return out


def encode(ns):
    t = ['NS', rat(ns.total_time), str(ns.total_quantized_steps),
         str(ns.quantization_info.steps_per_quarter), str(ns.quantization_info.steps_per_second),
         '1' if ns.HasField('subsequence_info') else '0', rat(ns.subsequence_info.start_time_offset),
         rat(ns.subsequence_info.end_time_offset), str(ns.ticks_per_quarter), meta_digest(ns)]
    t.append(wl(' '.join([str(n.pitch), str(n.velocity), rat(n.start_time), rat(n.end_time),
                          str(n.quantized_start_step), str(n.quantized_end_step), str(n.instrument),
                          str(n.program), '1' if n.is_drum else '0', str(n.numerator), str(n.denominator),
                          str(n.voice), str(n.part), str(n.pitch_name)]) for n in ns.notes))
    t.append(wl('%s %s' % (rat(x.time), rat(x.qpm)) for x in ns.tempos))
    t.append(wl('%s %d %d' % (rat(x.time), x.numerator, x.denominator) for x in ns.time_signatures))
    t.append(wl('%s %d %d' % (rat(x.time), x.key, x.mode) for x in ns.key_signatures))
    t.append(wl('%s %d %d %s' % (rat(x.time), x.quantized_step, x.annotation_type, hx(x.text)) for x in ns.text_annotations))
    t.append(wl('%s %d %d %d %d %d %s' % (rat(x.time), x.quantized_step, x.control_number, x.control_value,
                                          x.instrument, x.program, '1' if x.is_drum else '0') for x in ns.control_changes))
    t.append(wl('%s %d %d %d %s' % (rat(x.time), x.bend, x.instrument, x.program, '1' if x.is_drum else '0') for x in ns.pitch_bends))
    t.append(wl('%s %d' % (rat(x.time), x.section_id) for x in ns.section_annotations))
    sg = []
    for g in ns.section_groups:
        sg += ['G'] + _group(g)
    t.append(wl(sg))
    return ' '.join(t)


def result_line(f, *a, **kw):
    """run an implementation function returning a NoteSequence; wire form of result/exception."""
    try:
        r = f(*a, **kw)
    except Exception as e:  # pylint: disable=broad-except
        return 'err ' + type(e).__name__
    if isinstance(r, (list, tuple)) and (not r or isinstance(r[0], music_pb2.NoteSequence)):
        return 'okl %d ' % len(r) + ' | '.join(encode(x) for x in r)
    return 'ok ' + encode(r)


# ----------------------------------------------------------------------------- generator
def nextafter_n(x, n):
    for _ in range(abs(n)):
        x = math.nextafter(x, math.inf if n > 0 else -math.inf)
    return x


class NSGen:
    """Structure-aware NoteSequence generator.  Times come from a small pool so that events
    coincide with each other, with note starts/ends and with total_time."""

    def __init__(self, rng, max_notes=12, grid=None, pool_size=8, max_time=8.0, instruments=3,
                 with_meta=True, dyadic=False):
        self.rng, self.max_notes, self.instruments = rng, max_notes, instruments
        self.with_meta = with_meta
        r = rng
        pool = set()
        for _ in range(pool_size):
            k = r.random()
            if dyadic or k < 0.45:
                pool.add(r.randrange(0, int(max_time * 8) + 1) / 8.0)
            elif k < 0.7:
                pool.add(round(r.uniform(0, max_time), 2))
            else:
                pool.add(r.uniform(0, max_time))
        pool.add(0.0)
        self.pool = sorted(pool)

    def t(self):
        r = self.rng
        if r.random() < 0.8:
            return r.choice(self.pool)
        return r.uniform(0, self.pool[-1] + 1.0)

    def make(self, notes=True, tempos=True, tsigs=True, ksigs=True, texts=True, ccs=True, bends=True,
             sections=True, drums=True, sub=False, well_formed=True):
        r = self.rng
        ns = music_pb2.NoteSequence()
        ns.ticks_per_quarter = r.choice([0, 220, 480])
        if self.with_meta and r.random() < 0.5:
            ns.id = 'id%d' % r.randrange(100)
            ns.filename = 'f.mid'
            ns.sequence_metadata.title = 'T%d' % r.randrange(9)
            ii = ns.instrument_infos.add()
            ii.instrument = 0
            ii.name = 'piano'
            ns.source_info.parser = 1
        maxend = 0.0
        if notes:
            for _ in range(r.randrange(0, self.max_notes + 1)):
                n = ns.notes.add()
                a, b = self.t(), self.t()
                if a > b:
                    a, b = b, a
                if r.random() < 0.85 and a == b:
                    b = a + r.choice([0.125, 0.25, 0.5, r.random()])
                n.start_time, n.end_time = a, b
                n.pitch = r.choice([60, 62, 64, 36, 38, r.randrange(0, 128)])
                n.velocity = r.choice([100, 64, 1, 127, r.randrange(1, 128)])
                n.instrument = r.randrange(0, self.instruments)
                n.program = r.choice([0, 0, 5, 40])
                n.is_drum = drums and r.random() < 0.15
                n.voice = r.randrange(0, 1000)
                n.part = r.randrange(0, 4)
                n.numerator, n.denominator = r.choice([(0, 0), (1, 4), (3, 8)])
                n.pitch_name = r.choice([0, 0, 2, 7])
                maxend = max(maxend, b)
        if tempos:
            for _ in range(r.choice([0, 1, 1, 2, 3])):
                x = ns.tempos.add()
                x.time = self.t() if r.random() < 0.7 else 0.0
                x.qpm = r.choice([120.0, 120.0, 60.0, 90.5, r.uniform(30, 240)])
        if tsigs:
            for _ in range(r.choice([0, 1, 1, 2, 3])):
                x = ns.time_signatures.add()
                x.time = self.t() if r.random() < 0.7 else 0.0
                x.numerator, x.denominator = r.choice([(4, 4), (4, 4), (3, 4), (6, 8), (2, 2)])
        if ksigs:
            for _ in range(r.choice([0, 0, 1, 2])):
                x = ns.key_signatures.add()
                x.time = self.t()
                x.key = r.randrange(12)
                x.mode = r.choice([0, 1])
        if texts:
            for _ in range(r.choice([0, 0, 1, 2, 4])):
                x = ns.text_annotations.add()
                x.time = self.t()
                x.annotation_type = r.choice([0, 1, 1, 2, 2])
                x.text = r.choice(['C', 'Am', 'G7', 'N.C.', 'F#m7b5', 'hello']) if x.annotation_type == 1 else r.choice(['', 'txt', 'b'])
        if ccs:
            for _ in range(r.choice([0, 0, 2, 4, 6])):
                x = ns.control_changes.add()
                x.time = self.t()
                x.control_number = r.choice([64, 64, 66, 67, 7, 1])
                x.control_value = r.choice([0, 127, 63, 64, r.randrange(128)])
                x.instrument = r.randrange(0, self.instruments)
                x.program = r.choice([0, 5])
                x.is_drum = False
        if bends:
            for _ in range(r.choice([0, 0, 1, 3])):
                x = ns.pitch_bends.add()
                x.time = self.t()
                x.bend = r.randrange(-8192, 8192)
                x.instrument = r.randrange(0, self.instruments)
        if sections:
            for i in range(r.choice([0, 0, 1, 2])):
                x = ns.section_annotations.add()
                x.time = self.t()
                x.section_id = i
        allt = [maxend] + [e.time for f in (ns.tempos, ns.time_signatures, ns.key_signatures, ns.text_annotations,
                                            ns.control_changes, ns.pitch_bends, ns.section_annotations) for e in f]
        k = r.random()
        if well_formed or k < 0.8:
            ns.total_time = maxend if k < 0.5 else max(allt) if k < 0.75 else max(allt) + r.choice([0.5, 1.0, r.random()])
        else:
            ns.total_time = r.choice([0.0, maxend / 2])
        if sub and r.random() < 0.3:
            ns.subsequence_info.start_time_offset = r.choice([0.0, 1.5])
            ns.subsequence_info.end_time_offset = r.choice([0.0, 2.25])
        return ns


def shuffled(ns, rng):
    """a copy with every repeated field in a random storage order."""
    c = music_pb2.NoteSequence()
    c.CopyFrom(ns)
    for f in ('notes', 'tempos', 'time_signatures', 'key_signatures', 'text_annotations',
              'control_changes', 'pitch_bends'):
        items = list(getattr(c, f))
        rng.shuffle(items)
        c.ClearField(f)
        getattr(c, f).extend(items)
    return c


def decode(line):
    """inverse of `encode` (section groups and opaque metadata are not restored); the line may carry
    leading request tokens before `NS`."""
    from note_seq.protobuf import music_pb2
    from harness.common import unrat
    t = line.split()
    i = t.index('NS')
    ns = music_pb2.NoteSequence()
    ns.total_time = float(unrat(t[i + 1]))
    ns.total_quantized_steps = int(t[i + 2])
    if int(t[i + 3]):
        ns.quantization_info.steps_per_quarter = int(t[i + 3])
    if int(t[i + 4]):
        ns.quantization_info.steps_per_second = int(t[i + 4])
    if t[i + 5] == '1':
        ns.subsequence_info.start_time_offset = float(unrat(t[i + 6]))
        ns.subsequence_info.end_time_offset = float(unrat(t[i + 7]))
    ns.ticks_per_quarter = int(t[i + 8])
    p = i + 10

    def take(k):
        nonlocal p
        n = int(t[p]); p += 1
        rows = [t[p + j * k: p + (j + 1) * k] for j in range(n)]
        p += n * k
        return rows
    fl = lambda s: float(unrat(s))
    for r in take(14):
        n = ns.notes.add()
        n.pitch, n.velocity, n.start_time, n.end_time = int(r[0]), int(r[1]), fl(r[2]), fl(r[3])
        n.quantized_start_step, n.quantized_end_step, n.instrument, n.program = int(r[4]), int(r[5]), int(r[6]), int(r[7])
        n.is_drum, n.numerator, n.denominator, n.voice, n.part, n.pitch_name = r[8] == '1', int(r[9]), int(r[10]), int(r[11]), int(r[12]), int(r[13])
    for r in take(2):
        x = ns.tempos.add(); x.time, x.qpm = fl(r[0]), fl(r[1])
    for r in take(3):
        x = ns.time_signatures.add(); x.time, x.numerator, x.denominator = fl(r[0]), int(r[1]), int(r[2])
    for r in take(3):
        x = ns.key_signatures.add(); x.time, x.key, x.mode = fl(r[0]), int(r[1]), int(r[2])
    for r in take(4):
        x = ns.text_annotations.add(); x.time, x.quantized_step, x.annotation_type, x.text = fl(r[0]), int(r[1]), int(r[2]), unhx(r[3])
    for r in take(7):
        x = ns.control_changes.add()
        x.time, x.quantized_step, x.control_number, x.control_value, x.instrument, x.program, x.is_drum = fl(r[0]), int(r[1]), int(r[2]), int(r[3]), int(r[4]), int(r[5]), r[6] == '1'
    for r in take(5):
        x = ns.pitch_bends.add(); x.time, x.bend, x.instrument, x.program, x.is_drum = fl(r[0]), int(r[1]), int(r[2]), int(r[3]), r[4] == '1'
    for r in take(2):
        x = ns.section_annotations.add(); x.time, x.section_id = fl(r[0]), int(r[1])
    return ns
