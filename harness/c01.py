"""C01 — quantization snaps to the nearest step and changes nothing else (DESIGN 6.1)."""
import math
from fractions import Fraction as F

from harness import nswire
from harness.common import rat

PID = 'C01'
MODULES = ['NoteSeqVerif.Props.C01', 'NoteSeqVerif.Props.C01_float']
EXE = 'drv_c01'
_P = 'NoteSeqVerif.Props.C01'
_F = 'NoteSeqVerif.Props.C01_float'
THEOREMS = [(_P, t) for t in [
    'NSV.C01.qstep_exact_nearest', 'NSV.C01.qstep_exact_tie_up', 'NSV.C01.qstep_exact_unique',
    'NSV.C01.qstep_mono', 'NSV.C01.qstep_stretch_invariant',
    'NSV.C01.quantize_min_len', 'NSV.C01.quantize_total_covers', 'NSV.C01.quantize_nonneg',
    'NSV.C01.quantizeNotes_negative_iff', 'NSV.C01.quantizeNotes_frame', 'NSV.C01.quantizeAbs_frame',
    'NSV.C01.quantizeRel_rejects_time_signature_change', 'NSV.C01.quantizeRel_bad_time_signature',
    'NSV.C01.isPow2_iff', 'NSV.C01.quantizeRel_rejects_tempo_change', 'NSV.C01.quantizeRel_accepts',
    'NSV.C01.quantizeRel_frame', 'NSV.C01.checkTimeSigs_perm', 'NSV.C01.checkTempos_perm',
    'NSV.C01.qNotes_spec', 'NSV.C01.quantizeNotes_spec', 'NSV.C01.checkTimeSigs_spec', 'NSV.C01.checkTempos_spec',
]] + [(_F, t) for t in [
    'NSV.C01.qstep_float_nearest', 'NSV.C01.qstep_float_within_one', 'NSV.C01.qstep_float_mono',
    'NSV.C01.quantize_min_len_float', 'NSV.C01.sps_float_nonneg',
    'NSV.rounding_rne53', 'NSV.qstep_float', 'NSV.qstep_near',
]]


def generate(chk):
    from note_seq import sequences_lib as sl, constants
    txt = ('/-! GENERATED from /repo on every run by harness/c01.py — do not edit. -/\n'
           'namespace NSV.C01.Gen\n'
           'def QUANTIZE_CUTOFF : Rat := %s\n' % ('(%s : Rat)' % F(sl.QUANTIZE_CUTOFF)).replace('/', ' / ')
           + 'def DEFAULT_QPM : Rat := %s\n' % ('(%s : Rat)' % F(constants.DEFAULT_QUARTERS_PER_MINUTE))
           + 'end NSV.C01.Gen\n')
    chk.regenerate('NoteSeqVerif/Generated/C01.lean', txt)


# ----------------------------------------------------------------------------- generators
def gen_time(rng, sps):
    """times from four sub-streams: arbitrary, on-grid, half-step boundary +-ulps, near zero/negative."""
    k = rng.random()
    if k < 0.3:
        return rng.uniform(0, 20), 'arbitrary'
    if k < 0.5:
        return rng.randrange(0, 200) / sps, 'on-grid'
    if k < 0.85:
        t = (rng.randrange(0, 400) + 0.5) / sps
        return nswire.nextafter_n(t, rng.randrange(-3, 4)), 'half-step+-ulps'
    if k < 0.93:
        return rng.choice([0.0, 0.49 / sps, 0.5 / sps, 1e-9]), 'near-zero'
    return -rng.choice([0.4, 0.5, 1.0, 1.4, 1.5, 1.6, 2.5]) / sps, 'negative'


def gen_case(rng):
    ns = nswire.NSGen(rng, max_notes=rng.choice([0, 3, 10, 40])).make(notes=False, tempos=False, tsigs=False, sub=True)
    mode = rng.choice(['rel', 'rel', 'abs'])
    hist = set()
    if mode == 'abs':
        res = rng.choice([1, 2, 10, 31, 100, 250, 1000, rng.randrange(1, 1001)])
        sps = float(res)
    else:
        res = rng.choice([1, 2, 3, 4, 4, 6, 8, 12, 24, 96, rng.randrange(1, 97)])
        qpm = rng.choice([120.0, 60.0, 90.5, 10.0, 480.0, rng.uniform(10, 480)])
        sps = res * qpm / 60.0
        # tempos: 0-3, random storage order, some equal, some changing
        k = rng.random()
        if k < 0.15:
            hist.add('tempo:none')
            sps = res * 120.0 / 60.0
        else:
            n = rng.choice([1, 1, 2, 3])
            first_time = rng.choice([0.0, 0.0, 1.5])
            tempos = [(first_time, qpm)]
            for _ in range(n - 1):
                tempos.append((rng.choice([0.0, 1.5, 2.0, 5.0]), qpm if rng.random() < 0.6 else rng.choice([60.0, 100.0])))
            rng.shuffle(tempos)
            for (t, q) in tempos:
                x = ns.tempos.add()
                x.time, x.qpm = t, q
            hist.add('tempo:%d' % n)
        k = rng.random()
        if k < 0.3:
            hist.add('tsig:none')
        else:
            n = rng.choice([1, 1, 2, 3])
            sig = rng.choice([(4, 4), (4, 4), (3, 4), (6, 8), (0, 4), (4, 3), (4, 0), (5, 16), (4, -4)])
            tss = [(rng.choice([0.0, 0.0, 2.0]), sig)]
            for _ in range(n - 1):
                tss.append((rng.choice([0.0, 1.0, 3.0]), sig if rng.random() < 0.6 else rng.choice([(3, 4), (4, 4)])))
            rng.shuffle(tss)
            for (t, (a, b)) in tss:
                x = ns.time_signatures.add()
                x.time, x.numerator, x.denominator = t, a, b
            hist.add('tsig:%d' % n)
    allow_neg = rng.random() < 0.25
    for _ in range(rng.choice([0, 1, 3, 8, 20, 40])):
        n = ns.notes.add()
        a, ka = gen_time(rng, sps)
        b, kb = gen_time(rng, sps)
        if not allow_neg:
            a, b = abs(a), abs(b)
        if a > b:
            a, b = b, a
        n.start_time, n.end_time = a, b
        n.pitch, n.velocity = rng.randrange(128), rng.randrange(1, 128)
        n.instrument, n.voice = rng.randrange(4), rng.randrange(1000)
        hist.add('time:' + ka)
        hist.add('time:' + kb)
    for ev in list(ns.control_changes) + list(ns.text_annotations):
        t, k = gen_time(rng, sps)
        ev.time = t if allow_neg else abs(t)
    ends = [n.end_time for n in ns.notes]
    ns.total_time = max(ends + [0.0]) if rng.random() < 0.7 else rng.uniform(0, 25)
    return mode, res, ns, hist


# ----------------------------------------------------------------------------- oracle
def nearest_ties_up(x):
    return math.floor(x + F(1, 2))


def oracle_case(sl, mode, res, ns):
    """the property statement, evaluated on the implementation's output in exact arithmetic.
    returns a description of what fails, or None."""
    before = ns.SerializeToString(deterministic=True)
    try:
        out = sl.quantize_note_sequence(ns, res) if mode == 'rel' else sl.quantize_note_sequence_absolute(ns, res)
        err = None
    except Exception as e:  # pylint: disable=broad-except
        out, err = None, e
    if ns.SerializeToString(deterministic=True) != before:
        return 'input modified'
    ok_errs = (sl.MultipleTempoError, sl.MultipleTimeSignatureError, sl.BadTimeSignatureError, sl.NegativeTimeError)
    if err is not None and not isinstance(err, ok_errs):
        return 'undocumented exception %s' % type(err).__name__
    # expected rejection, from the statement
    expect = None
    if mode == 'rel':
        tss = sorted(ns.time_signatures, key=lambda t: t.time)
        tps = sorted(ns.tempos, key=lambda t: t.time)
        sigs = {(t.numerator, t.denominator) for t in tss}
        if tss and (len(sigs) > 1 or (tss[0].time != 0 and (tss[0].numerator, tss[0].denominator) != (4, 4))):
            expect = sl.MultipleTimeSignatureError
        elif tss and (tss[0].numerator == 0 or tss[0].denominator <= 0 or tss[0].denominator & (tss[0].denominator - 1)):
            expect = sl.BadTimeSignatureError
        elif tps and (len({t.qpm for t in tps}) > 1 or (tps[0].time != 0 and tps[0].qpm != 120.0)):
            expect = sl.MultipleTempoError
        qpm = tps[0].qpm if tps else 120.0
        sps = F(res * qpm / 60.0)
    else:
        sps = F(res)
    if expect is not None:
        return None if isinstance(err, expect) else 'expected %s, got %s' % (expect.__name__, type(err).__name__ if err else 'a result')
    times = [(n.start_time, 'note') for n in ns.notes] + [(n.end_time, 'note') for n in ns.notes] + \
            [(e.time, 'ev') for e in ns.control_changes] + [(e.time, 'ev') for e in ns.text_annotations]
    two_before = any(F(t) * sps <= F(-2) for t, _ in times)
    none_before_half = all(F(t) * sps > F(-1, 2) - F(1, 10**6) for t, _ in times)
    if isinstance(err, sl.NegativeTimeError):
        return None if not none_before_half else 'NegativeTimeError although no time is before zero'
    if err is not None:
        return 'unexpected %s' % type(err).__name__
    if two_before:
        return 'a time two or more steps before zero was quantized, not rejected'

    def check(t, step):
        x = F(t) * sps
        want = nearest_ties_up(x)
        if step == want:
            return None
        # the float product t*sps may differ from the real product by an ulp: allow the neighbour only
        # when the real product is within 2^-40 (relative) of a half-step boundary
        frac = x + F(1, 2) - math.floor(x + F(1, 2))
        near = min(frac, 1 - frac) <= (abs(x) + 1) * F(1, 2**40)
        # ... but not on an exact half-step tie that the code sees exactly (float product exact, x = k + 1/2: then
        # x + 0.5 is exact too and the statement's "ties round up" applies with no tolerance).  One ulp beside the
        # boundary the code's own addition x + 0.5 rounds, which the tolerance above covers (C01 float theorems).
        exact_tie = (2 * x).denominator == 1 and x.denominator == 2 and F(t * float(sps)) == x and abs(x) < 2**50
        if near and abs(step - want) == 1 and not exact_tie:
            return None
        if x < 0 and step == 0 and x > F(-3, 2):   # int() truncates toward zero: (-1.5, -0.5] -> 0 (allowed)
            return None
        return 'time %r -> step %d, nearest is %d' % (t, step, want)

    for n, o in zip(ns.notes, out.notes):
        r = check(n.start_time, o.quantized_start_step)
        if r:
            return r
        want_e = nearest_ties_up(F(n.end_time) * sps)
        if o.quantized_end_step == o.quantized_start_step + 1 and want_e <= o.quantized_start_step:
            pass  # minimum length rule
        else:
            r = check(n.end_time, o.quantized_end_step)
            if r:
                return r
        if o.quantized_end_step < o.quantized_start_step + 1:
            return 'note shorter than one step'
        if out.total_quantized_steps < o.quantized_end_step:
            return 'total_quantized_steps does not cover a note end'
    for src, dst in ((ns.control_changes, out.control_changes), (ns.text_annotations, out.text_annotations)):
        for e, o in zip(src, dst):
            r = check(e.time, o.quantized_step)
            if r:
                return r
    # monotone
    pairs = sorted((F(n.start_time), o.quantized_start_step) for n, o in zip(ns.notes, out.notes))
    if any(a[1] > b[1] for a, b in zip(pairs, pairs[1:])):
        return 'step assignment not monotone in time'
    # everything else untouched
    chk = type(ns)()
    chk.CopyFrom(out)
    for n, o in zip(ns.notes, chk.notes):
        o.quantized_start_step, o.quantized_end_step = n.quantized_start_step, n.quantized_end_step
    for src, dst in ((ns.control_changes, chk.control_changes), (ns.text_annotations, chk.text_annotations)):
        for e, o in zip(src, dst):
            o.quantized_step = e.quantized_step
    chk.total_quantized_steps = ns.total_quantized_steps
    chk.quantization_info.CopyFrom(ns.quantization_info)
    if not ns.quantization_info.ByteSize():
        chk.ClearField('quantization_info')
    if mode == 'rel':
        if len(out.tempos) != 1 or out.tempos[0].time != 0 or len(out.time_signatures) != 1 or out.time_signatures[0].time != 0:
            return 'single tempo / time signature not made explicit at time zero'
        if out.tempos[0].qpm != (sorted(ns.tempos, key=lambda t: t.time)[0].qpm if ns.tempos else 120.0):
            return 'tempo value changed'
        ts0 = sorted(ns.time_signatures, key=lambda t: t.time)[0] if ns.time_signatures else None
        if (out.time_signatures[0].numerator, out.time_signatures[0].denominator) != ((ts0.numerator, ts0.denominator) if ts0 else (4, 4)):
            return 'time signature value changed'
        chk.ClearField('tempos')
        chk.tempos.extend(ns.tempos)
        chk.ClearField('time_signatures')
        chk.time_signatures.extend(ns.time_signatures)
    if chk.SerializeToString(deterministic=True) != before:
        return 'a field other than the quantization fields changed'
    return None


def run(chk):
    from note_seq import sequences_lib as sl
    generate(chk)
    chk.prove(MODULES, THEOREMS, [EXE], extra_trusted=[
        'rne53 as a model of IEEE-754 binary64 arithmetic (validated bit-exactly by every request of this run)',
        'protobuf deepcopy semantics; CPython sorted() stability'])
    chk.rule = ('generated unquantized sequences (0-40 notes, control changes, annotations, 0-3 tempos/time signatures in '
                'random storage order) with times from: arbitrary doubles, on-grid k/sps, half-step boundaries (k+1/2)/sps '
                'moved by -3..+3 ulps, near-zero and negative times; non-trivial = distinct input whose result is a value or a documented error')
    rng = chk.subrng('corr')
    reqs, impl, cases = [], [], []
    for i in range(chk.n(1500, 60000)):
        mode, res, ns, hist = gen_case(rng)
        line = '%s %d %s' % (mode, res, nswire.encode(ns))
        f = sl.quantize_note_sequence if mode == 'rel' else sl.quantize_note_sequence_absolute
        reqs.append(line)
        impl.append(nswire.result_line(f, ns, res))
        cases.append((mode, res, ns, hist))
    # quantize_to_step directly, half-step boundaries +- ulps
    for i in range(chk.n(3000, 100000)):
        sps = rng.choice([1.0, 2.0, 8.0, 100.0, 1000.0, rng.randrange(1, 97) * rng.uniform(10, 480) / 60.0])
        t, kind = gen_time(rng, sps)
        reqs.append('step %s %s' % (rat(t), rat(sps)))
        impl.append('ok %d' % sl.quantize_to_step(t, sps))
        cases.append(('step', kind))
    model = chk.driver(EXE, reqs)
    for req, a, b, c in zip(reqs, impl, model, cases):
        if c[0] == 'step':
            chk.count('quantize_to_step', req, True, c[1])
        else:
            chk.count('quantize_' + c[0], req[:2000], b != 'bad-op', sorted(c[3]) + ['result:' + ' '.join(a.split()[:2]) if a.startswith('err') else 'result:ok'])
        if a != b:
            chk.disagree('quantize', {'request': req[:4000]}, a[:600], b[:600])
    chk.sample({'request': reqs[1][:300] + ' …', 'impl': impl[1][:200] + ' …', 'model_equal': impl[1] == model[1]})
    chk.sample({'request': reqs[-1], 'impl': impl[-1], 'model': model[-1]})
    # oracle on the implementation (independent of the model)
    for (c, req) in zip(cases, reqs):
        if c[0] == 'step':
            continue
        mode, res, ns, _ = c
        chk.count('oracle', None)
        r = oracle_case(sl, mode, res, ns)
        if r:
            chk.fail(r, {'mode': mode, 'resolution': res, 'sequence': req})
            if len(chk.failures) > 20:
                break


def replay(chk, obj):
    from note_seq import sequences_lib as sl
    from note_seq.protobuf import music_pb2
    print('replay C01:', obj.get('mode'), obj.get('resolution'))
    ns = nswire.decode(obj['sequence'])
    r = oracle_case(sl, obj['mode'], obj['resolution'], ns)
    print('PROPERTY FAILS: %s' % r if r else 'property holds on this input')
    return 1 if r else 0
