"""C01 — quantization snaps to the nearest step and changes nothing else (DESIGN 6.1)."""
import math
from fractions import Fraction as F

from harness import nswire
from harness.common import rat, unrat, corpus_cases

PID = 'C01'
MODULES = ['NoteSeqVerif.Props.C01', 'NoteSeqVerif.Props.C01_float']
EXE = 'drv_c01'
# translator tie T2 (gen/translit2.py): the definitions obtained by symbolic execution of the CURRENT source of
# quantize_to_step / steps_per_quarter_to_steps_per_second are provably the model functions the theorems are about
BRIDGE = 'NoteSeqVerif.Props.C01_bridge'
BRIDGE_THEOREMS = ['NSV.C01.t2_quantize_to_step', 'NSV.C01.t2_steps_per_quarter_to_steps_per_second', 'NSV.C01.t2_quantize_to_step_default_cutoff']
_P = 'NoteSeqVerif.Props.C01'
_F = 'NoteSeqVerif.Props.C01_float'
THEOREMS = [(_P, t) for t in [
    'NSV.C01.qstep_exact_nearest', 'NSV.C01.qstep_exact_tie_up', 'NSV.C01.qstep_exact_unique',
    'NSV.C01.qstep_mono', 'NSV.C01.qstep_stretch_invariant',
    'NSV.C01.quantize_min_len', 'NSV.C01.quantize_total_covers', 'NSV.C01.quantize_nonneg',
    'NSV.C01.quantizeNotes_negative_iff', 'NSV.C01.quantizeNotes_frame', 'NSV.C01.quantizeAbs_frame',
    'NSV.C01.quantizeRel_rejects_time_signature_change', 'NSV.C01.quantizeRel_bad_time_signature',
    'NSV.C01.isPow2_iff', 'NSV.C01.isPow2_two_pow', 'NSV.C01.quantizeRel_rejects_tempo_change', 'NSV.C01.quantizeRel_accepts',
    'NSV.C01.quantizeRel_frame', 'NSV.C01.checkTimeSigs_perm', 'NSV.C01.checkTempos_perm',
    'NSV.C01.qNotes_spec', 'NSV.C01.quantizeNotes_spec', 'NSV.C01.checkTimeSigs_spec', 'NSV.C01.checkTempos_spec',
]] + [(_F, t) for t in [
    'NSV.C01.qstep_float_nearest', 'NSV.C01.qstep_float_tie_up', 'NSV.C01.qstep_float_within_one', 'NSV.C01.qstep_float_mono',
    'NSV.C01.quantize_min_len_float', 'NSV.C01.sps_float_nonneg',
    'NSV.rounding_rne53', 'NSV.qstep_float', 'NSV.qstep_near',
]]


def generate(chk):
    from note_seq import sequences_lib as sl, constants
    txt = ('/-! GENERATED from /repo on every run by harness/c01.py — do not edit. -/\n'
           'namespace NSV.C01.Gen\n'
           'def QUANTIZE_CUTOFF : Rat := %s\n' % ('(%s : Rat)' % F(sl.QUANTIZE_CUTOFF)).replace('/', ' / ')
           + 'def DEFAULT_QPM : Rat := %s\n' % ('(%s : Rat)' % F(constants.DEFAULT_QUARTERS_PER_MINUTE))
           + 'end NSV.C01.Gen\n')
    chk.regenerate('NoteSeqVerif/Generated/C01.lean', txt)
    from harness.t2 import generate_t2
    generate_t2(chk, 'C01', [
        dict(fn=sl.quantize_to_step, module=sl, name='quantize_to_step',
             params={'unquantized_seconds': 'float', 'steps_per_second': 'float', 'quantize_cutoff': 'float'}),
        dict(fn=sl.steps_per_quarter_to_steps_per_second, module=sl, name='steps_per_quarter_to_steps_per_second',
             params={'steps_per_quarter': 'int', 'qpm': 'float'}),
    ])


# ----------------------------------------------------------------------------- generators
ZEROISH = [0.0, 0.0, -0.0, 5e-324, -5e-324, 2.2250738585072014e-308, 1e-300, 1e-18, 1e-12, 1e-9, -1e-12]


def near_value(rng, x):
    """a double nearly equal to x (never equal): 1-3 ulps or 1e-12 .. 1e-6 (relative) away, either side"""
    if rng.random() < 0.5:
        n = rng.choice([-3, -2, -1, 1, 2, 3])
        return nswire.nextafter_n(x, n), 'ulps'
    y = x * (1 + rng.choice([-1, 1]) * rng.choice([1e-12, 1e-11, 1e-10, 1e-9, 1e-8, 1e-7, 1e-6]))
    return (y, 'rel') if y != x else (nswire.nextafter_n(x, 1), 'ulps')


def exact_tie_time(rng, sps):
    """a double t whose REAL product with the double sps is exactly k + 1/2 (and small enough that the float product is
    exact too): the statement's "exact half-step ties round up" applies to it with no float tolerance.  With
    sps = o * 2^e (o odd) these are t = (2i+1) * 2^(-e-1), t*sps = (2i+1)*o/2.  None when o is too large."""
    p = F(sps)
    if p <= 0:
        return None
    num, den = p.numerator, p.denominator
    a = (num & -num).bit_length() - 1
    o = num >> a
    if o >= 2 ** 24:
        return None
    i = rng.choice([0, 0, 1, 2, rng.randrange(0, 400), rng.randrange(0, 10 ** 6)])
    t = float(F((2 * i + 1) * den, 2 ** (a + 1)))
    return t if F(t) * p == F((2 * i + 1) * o, 2) and t * float(sps) == (2 * i + 1) * o / 2 else None


def gen_time(rng, sps):
    """times from sub-streams: arbitrary, on-grid, half-step boundary +-ulps (small and large step numbers, k/sps and the
    decimal literal), near zero, negative (incl. the -1/2, -3/2, -2 step boundaries +-ulps)."""
    k = rng.random()
    if k < 0.07:
        t = exact_tie_time(rng, sps)
        if t is not None:
            return t, 'half-step:exact-tie'
    if k < 0.25:
        return rng.uniform(0, 20), 'arbitrary'
    if k < 0.42:
        return rng.randrange(0, 200) / sps, 'on-grid'
    if k < 0.72:
        t = (rng.randrange(0, 400) + 0.5) / sps
        return nswire.nextafter_n(t, rng.randrange(-3, 4)), 'half-step+-ulps'
    if k < 0.78:
        # long sequences: step numbers 1e4 .. 1e7, where t*sps carries a visible rounding error
        t = (rng.randrange(10**4, 10**7) + 0.5) / sps
        return nswire.nextafter_n(t, rng.randrange(-3, 4)), 'half-step+-ulps:large'
    if k < 0.83:
        # the half-step boundary as a decimal literal (what a file parser / a human writes), 6-12 digits
        return round((rng.randrange(0, 400) + 0.5) / sps, rng.choice([6, 9, 12])), 'half-step:decimal-literal'
    if k < 0.86:
        return nswire.nextafter_n(rng.randrange(0, 200) / sps, rng.choice([-1, 1])), 'on-grid+-ulp'
    if k < 0.93:
        return rng.choice([0.0, -0.0, 0.49 / sps, 0.5 / sps, nswire.nextafter_n(0.5 / sps, rng.choice([-1, 1])), 1e-9, 1e-300]), 'near-zero'
    if k < 0.97:
        return -rng.choice([0.4, 0.5, 1.0, 1.4, 1.5, 1.6, 2.5]) / sps, 'negative'
    return nswire.nextafter_n(-rng.choice([0.5, 1.5, 2.0]) / sps, rng.randrange(-2, 3)), 'negative-boundary+-ulps'


def gen_tempos(rng, qpm, focus, hist):
    """0-4 tempos in random storage order.  `focus`: every equality decision of the rejection clause gets its
    near-coincidence (later qpm 1-3 ulps / 1e-12..1e-6 relative beside the first, first qpm beside the default 120,
    first time a few ulps / a subnormal beside 0, two events at times one ulp apart deciding which one is "first")."""
    n = rng.choice([1, 1, 2, 3, 4 if focus else 2])
    if focus:
        first_time = rng.choice(ZEROISH + [1.5, 1e-9])
        if rng.random() < 0.35:
            qpm, kind = near_value(rng, 120.0) if rng.random() < 0.7 else (120.0, 'exact')
            hist.add('tempo:first-beside-default-120:' + kind)
        if first_time != 0 or math.copysign(1, first_time) < 0:
            hist.add('tempo:first-time-beside-zero' if abs(first_time) < 1e-6 else 'tempo:first-time-later')
    else:
        first_time = rng.choice([0.0, 0.0, 1.5])
    tempos = [(first_time, qpm)]
    for _ in range(n - 1):
        t = rng.choice([0.0, 1.5, 2.0, 5.0])
        m = rng.random()
        if not focus:
            q = qpm if m < 0.6 else rng.choice([60.0, 100.0])
        else:
            t = rng.choice([t, first_time, nswire.nextafter_n(first_time, rng.choice([-1, 1])), rng.choice(ZEROISH)])
            if m < 0.4:
                q = qpm
            elif m < 0.9:
                q, kind = near_value(rng, qpm)
                hist.add('tempo:later-nearly-equal:' + kind)
            else:
                q = rng.choice([60.0, 100.0])
        tempos.append((t, q))
    rng.shuffle(tempos)
    hist.add('tempo:%d' % n)
    return tempos


SIGS = [(4, 4), (4, 4), (3, 4), (6, 8), (0, 4), (4, 3), (4, 0), (5, 16), (4, -4)]
# every legal denominator of the int32 field: 2^0 .. 2^30 (all 31, not a sample), their +-1 neighbours, sums of two
# powers, zero and negatives
POW2 = [2 ** i for i in range(31)]
DENS = POW2 + POW2 + [2 ** i + d for i in range(2, 31) for d in (-1, 1)] + [2 ** 29 + 2 ** 28, 2 ** 30 + 2 ** 29, 2 ** 31 - 1] + \
    [3, 5, 6, 7, 9, 12, 15, 17, 24, 31, 33, 48, 96, 127, 129, 255, 257, 0, -1, -2, -4, -8, -2 ** 29, -2 ** 30, -2 ** 31]


def gen_tsigs(rng, focus, hist):
    n = rng.choice([1, 1, 2, 3, 4 if focus else 2])
    if not focus:
        sig = rng.choice(SIGS)
        tss = [(rng.choice([0.0, 0.0, 2.0]), sig)]
        for _ in range(n - 1):
            tss.append((rng.choice([0.0, 1.0, 3.0]), sig if rng.random() < 0.6 else rng.choice([(3, 4), (4, 4)])))
    else:
        m = rng.random()
        if m < 0.4:     # (numerator, denominator) == (4, 4) and its neighbours, off zero by next to nothing
            sig = rng.choice([(4, 4), (4, 4), (4, 8), (8, 4), (4, 2), (2, 4), (3, 4), (5, 4), (2, 2), (8, 8), (4, 16), (-4, 4)])
        elif m < 0.8:   # power-of-two test and zero numerator
            sig = (rng.choice([4, 4, 3, 1, 0, 0, -1, 7]), rng.choice(DENS))
        else:
            sig = rng.choice(SIGS)
        first_time = rng.choice(ZEROISH + [2.0, 1e-9])
        if first_time != 0:
            hist.add('tsig:first-time-beside-zero' if abs(first_time) < 1e-6 else 'tsig:first-time-later')
        tss = [(first_time, sig)]
        for _ in range(n - 1):
            t = rng.choice([0.0, 1.0, 3.0, first_time, nswire.nextafter_n(first_time, rng.choice([-1, 1])), rng.choice(ZEROISH)])
            m = rng.random()
            if m < 0.5:
                s2 = sig
            elif m < 0.9:   # differs in exactly one component / is ratio-equal / swapped
                s2 = rng.choice([(sig[0], sig[1] * 2), (sig[0], sig[1] // 2 if sig[1] > 1 else 2), (sig[0] + 1, sig[1]),
                                 (sig[0] * 2, sig[1] * 2), (sig[1], sig[0]), (sig[0] - 1, sig[1])])
                s2 = (max(-2**31, min(2**31 - 1, s2[0])), max(-2**31, min(2**31 - 1, s2[1])))
                hist.add('tsig:later-differs-in-one-component' if s2 != sig else 'tsig:later-equal')
            else:
                s2 = rng.choice([(3, 4), (4, 4)])
            tss.append((t, s2))
    rng.shuffle(tss)
    hist.add('tsig:%d' % n)
    return tss


def gen_case(rng):
    ns = nswire.NSGen(rng, max_notes=rng.choice([0, 3, 10, 40])).make(notes=False, tempos=False, tsigs=False, sub=True)
    mode = rng.choice(['rel', 'rel', 'abs'])
    hist = set()
    if mode == 'abs':
        res = rng.choice([1, 2, 10, 31, 100, 250, 1000, 75, 93, 99] + [rng.randrange(1, 1001)] * 10)
        sps = float(res)
    else:
        res = rng.choice([1, 2, 3, 4, 4, 6, 8, 12, 24, 96, rng.randrange(1, 97)])
        qpm = rng.choice([120.0, 60.0, 90.5, 10.0, 480.0, rng.uniform(10, 480), rng.uniform(10, 480),
                          # decimal tempos and tempos as a MIDI file gives them (60e6 / microseconds per quarter)
                          100.1, 133.33, 200 / 3, 87.3, 60e6 / rng.randrange(125000, 6000000), round(rng.uniform(10, 480), 2),
                          # multiples of 15: res * qpm / 60 is a dyadic number of steps per second with a small odd part
                          # (33 spq at 180 qpm = 99 steps per second), so exact half-step ties exist
                          15.0 * rng.randrange(1, 33), 15.0 * rng.randrange(1, 33), 180.0])
        sps = res * qpm / 60.0
        # near-coincidences for the rejection clause: on the tempos (time signatures harmless, so that the tempo decisions
        # are reached), on the time signatures, or on both
        focus = rng.choice(['', '', '', '', '', 'tempo', 'tempo', 'tsig', 'tsig', 'tempo+tsig'])
        if focus:
            hist.add('reject-focus:' + focus)
        # tempos: 0-4, random storage order, some equal, some nearly equal, some changing
        if rng.random() < 0.15:
            hist.add('tempo:none')
            sps = res * 120.0 / 60.0
        else:
            for (t, q) in gen_tempos(rng, qpm, 'tempo' in focus, hist):
                x = ns.tempos.add()
                x.time, x.qpm = t, q
            sps = res * min(ns.tempos, key=lambda t: t.time).qpm / 60.0
        if focus == 'tempo' and rng.random() < 0.8:
            for _ in range(rng.choice([0, 1, 1, 2])):
                ns.time_signatures.add(time=0.0, numerator=3, denominator=4)
            hist.add('tsig:harmless')
        elif rng.random() < 0.3:
            hist.add('tsig:none')
        else:
            for (t, (a_, b_)) in gen_tsigs(rng, 'tsig' in focus, hist):
                x = ns.time_signatures.add()
                x.time, x.numerator, x.denominator = t, a_, b_
    allow_neg = rng.random() < 0.25
    for _ in range(rng.choice([0, 1, 3, 8, 20, 40])):
        n = ns.notes.add()
        a, ka = gen_time(rng, sps)
        b, kb = gen_time(rng, sps)
        if not allow_neg:
            a, b = abs(a), abs(b)
        if a > b:
            a, b = b, a
        if rng.random() < 0.2:
            # minimum-length rule / same step or adjacent steps: end equal to the start, ulps after it (possibly across a
            # half-step boundary), exactly half a step / one step after it
            m = rng.randrange(4)
            b = a if m == 0 else nswire.nextafter_n(a, rng.choice([1, 2, 3])) if m == 1 else a + 0.5 / sps if m == 2 else a + 1.0 / sps
            kb = 'end-beside-start'
        n.start_time, n.end_time = a, b
        n.pitch, n.velocity = rng.randrange(128), rng.randrange(1, 128)
        n.instrument, n.voice = rng.randrange(4), rng.randrange(1000)
        hist.add('time:' + ka)
        hist.add('time:' + kb)
    for ev in list(ns.control_changes) + list(ns.text_annotations):
        t, k = gen_time(rng, sps)
        ev.time = t if allow_neg else abs(t)
    ends = [n.end_time for n in ns.notes]
    m = rng.random()
    # total_time: the last note end, a time of its own near a half-step boundary, one ulp before the last end, arbitrary
    ns.total_time = (max(ends + [0.0]) if m < 0.55 else abs(gen_time(rng, sps)[0]) if m < 0.75
                     else nswire.nextafter_n(max(ends + [0.0]), -1) if m < 0.8 and max(ends + [0.0]) > 0 else rng.uniform(0, 25))
    return mode, res, ns, hist


# ----------------------------------------------------------------------------- oracle
def nearest_ties_up(x):
    return math.floor(x + F(1, 2))


def oracle_case(sl, mode, res, ns):
    """the property statement, evaluated on the implementation's output in exact arithmetic.
    returns a description of what fails, or None."""
    before = ns.SerializeToString(deterministic=True)
    f = sl.quantize_note_sequence if mode == 'rel' else sl.quantize_note_sequence_absolute
    try:
        out, err = f(ns, res), None
    except Exception as e:  # pylint: disable=broad-except
        out, err = None, e
    if ns.SerializeToString(deterministic=True) != before:
        return 'input modified' + (' (by a call that raised %s)' % type(err).__name__ if err is not None else '')
    # a short history: the result is a new object; spoiling it in place and calling again with the same arguments gives
    # the same answer (no state kept between calls, nothing of the input shared with an earlier result)
    if out is ns:
        return 'the result is the argument object itself, not a copy'
    first = out.SerializeToString(deterministic=True) if out is not None else None
    if out is not None:
        spoiled = type(ns)()
        spoiled.CopyFrom(out)
        for n in out.notes:
            n.quantized_start_step, n.quantized_end_step, n.pitch = 12345, 12346, 1
        del out.tempos[:]
        del out.time_signatures[:]
        out.total_quantized_steps = 999
        if ns.SerializeToString(deterministic=True) != before:
            return 'modifying the result in place changed the input (shared sub-messages)'
    try:
        out2, err2 = f(ns, res), None
    except Exception as e:  # pylint: disable=broad-except
        out2, err2 = None, e
    if ns.SerializeToString(deterministic=True) != before:
        return 'input modified by the second call'
    if type(err2) is not type(err) or (out2 is not None and out2.SerializeToString(deterministic=True) != first):
        return 'second call with the same arguments gives a different answer (%s, then %s)' % (
            type(err).__name__ if err else 'a result', type(err2).__name__ if err2 else 'a different result' if out else 'a result')
    if out2 is not None and (out2 is out or out2 is ns):
        return 'second call returned an object it returned or received before'
    out = out2
    ok_errs = (sl.MultipleTempoError, sl.MultipleTimeSignatureError, sl.BadTimeSignatureError, sl.NegativeTimeError)
    if err is not None and not isinstance(err, ok_errs):
        return 'undocumented exception %s' % type(err).__name__
    # expected rejection, from the statement
    expect = None
    if mode == 'rel':
        tss = sorted(ns.time_signatures, key=lambda t: t.time)
        tps = sorted(ns.tempos, key=lambda t: t.time)
        sigs = {(t.numerator, t.denominator) for t in tss}
        if tss and (len(sigs) > 1 or (tss[0].time != 0 and (tss[0].numerator, tss[0].denominator) != (4, 4))):
            expect = sl.MultipleTimeSignatureError
        elif tss and (tss[0].numerator == 0 or tss[0].denominator <= 0 or tss[0].denominator & (tss[0].denominator - 1)):
            expect = sl.BadTimeSignatureError
        elif tps and (len({t.qpm for t in tps}) > 1 or (tps[0].time != 0 and tps[0].qpm != 120.0)):
            expect = sl.MultipleTempoError
        qpm = tps[0].qpm if tps else 120.0
        sps = F(res * qpm / 60.0)
    else:
        sps = F(res)
    if expect is not None:
        return None if isinstance(err, expect) else 'expected %s, got %s' % (expect.__name__, type(err).__name__ if err else 'a result')
    times = [(n.start_time, 'note') for n in ns.notes] + [(n.end_time, 'note') for n in ns.notes] + \
            [(e.time, 'ev') for e in ns.control_changes] + [(e.time, 'ev') for e in ns.text_annotations]
    two_before = any(F(t) * sps <= F(-2) for t, _ in times)
    none_before_half = all(F(t) * sps > F(-1, 2) - F(1, 10**6) for t, _ in times)
    if isinstance(err, sl.NegativeTimeError):
        return None if not none_before_half else 'NegativeTimeError although no time is before zero'
    if err is not None:
        return 'unexpected %s' % type(err).__name__
    if two_before:
        return 'a time two or more steps before zero was quantized, not rejected'

    def check(t, step):
        x = F(t) * sps
        want = nearest_ties_up(x)
        if step == want:
            return None
        # the float product t*sps may differ from the real product by an ulp: allow the neighbour only when the real
        # product is inside the window around a half-step boundary outside which the doubles computation is PROVED to
        # return the real answer (qstep_float_nearest: |x - (n + 1/2)| <= (x + 1) / 2^51 for 0 <= x < 2^52); before zero
        # (no theorem) the old 2^-40 window stays
        frac = x + F(1, 2) - math.floor(x + F(1, 2))
        near = min(frac, 1 - frac) <= (abs(x) + 1) * (F(1, 2**51) if 0 <= x < 2**52 else F(1, 2**40))
        # ... but not on an exact half-step tie that the code sees exactly (float product exact, x = k + 1/2: then
        # x + 0.5 is exact too and the statement's "ties round up" applies with no tolerance).  One ulp beside the
        # boundary the code's own addition x + 0.5 rounds, which the tolerance above covers (C01 float theorems).
        exact_tie = (2 * x).denominator == 1 and x.denominator == 2 and F(t * float(sps)) == x and abs(x) < 2**50
        if near and abs(step - want) == 1 and not exact_tie:
            return None
        if x < 0 and step == 0 and x > F(-3, 2):   # int() truncates toward zero: (-1.5, -0.5] -> 0 (allowed)
            return None
        return 'time %r -> step %d, nearest is %d' % (t, step, want)

    for n, o in zip(ns.notes, out.notes):
        r = check(n.start_time, o.quantized_start_step)
        if r:
            return r
        want_e = nearest_ties_up(F(n.end_time) * sps)
        if o.quantized_end_step == o.quantized_start_step + 1 and want_e <= o.quantized_start_step:
            pass  # minimum length rule
        else:
            r = check(n.end_time, o.quantized_end_step)
            if r:
                return r
        if o.quantized_end_step < o.quantized_start_step + 1:
            return 'note shorter than one step'
        if out.total_quantized_steps < o.quantized_end_step:
            return 'total_quantized_steps does not cover a note end'
    for src, dst in ((ns.control_changes, out.control_changes), (ns.text_annotations, out.text_annotations)):
        for e, o in zip(src, dst):
            r = check(e.time, o.quantized_step)
            if r:
                return r
    # monotone
    pairs = sorted((F(n.start_time), o.quantized_start_step) for n, o in zip(ns.notes, out.notes))
    if any(a[1] > b[1] for a, b in zip(pairs, pairs[1:])):
        return 'step assignment not monotone in time'
    # everything else untouched
    chk = type(ns)()
    chk.CopyFrom(out)
    for n, o in zip(ns.notes, chk.notes):
        o.quantized_start_step, o.quantized_end_step = n.quantized_start_step, n.quantized_end_step
    for src, dst in ((ns.control_changes, chk.control_changes), (ns.text_annotations, chk.text_annotations)):
        for e, o in zip(src, dst):
            o.quantized_step = e.quantized_step
    chk.total_quantized_steps = ns.total_quantized_steps
    chk.quantization_info.CopyFrom(ns.quantization_info)
    if not ns.quantization_info.ByteSize():
        chk.ClearField('quantization_info')
    if mode == 'rel':
        if len(out.tempos) != 1 or out.tempos[0].time != 0 or len(out.time_signatures) != 1 or out.time_signatures[0].time != 0:
            return 'single tempo / time signature not made explicit at time zero'
        if out.tempos[0].qpm != (sorted(ns.tempos, key=lambda t: t.time)[0].qpm if ns.tempos else 120.0):
            return 'tempo value changed'
        ts0 = sorted(ns.time_signatures, key=lambda t: t.time)[0] if ns.time_signatures else None
        if (out.time_signatures[0].numerator, out.time_signatures[0].denominator) != ((ts0.numerator, ts0.denominator) if ts0 else (4, 4)):
            return 'time signature value changed'
        chk.ClearField('tempos')
        chk.tempos.extend(ns.tempos)
        chk.ClearField('time_signatures')
        chk.time_signatures.extend(ns.time_signatures)
    if chk.SerializeToString(deterministic=True) != before:
        return 'a field other than the quantization fields changed'
    return None


def oracle_step(sl, t, sps):
    """quantize_to_step(t, sps) against the statement ("the step nearest its time, exact half-step ties round up"),
    exactly: the float window of `check` above, none at all on a tie the doubles hit exactly."""
    x = F(t) * F(sps)
    try:
        a, b = sl.quantize_to_step(t, sps), sl.quantize_to_step(t, sps)
    except Exception as e:  # pylint: disable=broad-except
        return 'quantize_to_step(%r, %r) raised %s' % (t, sps, type(e).__name__)
    if a != b or not isinstance(a, int):
        return 'quantize_to_step(%r, %r) = %r, then %r' % (t, sps, a, b)
    want = nearest_ties_up(x)
    if a == want:
        return None
    if x < 0:
        # int() truncates toward zero; before zero the statement only asks for the rejection two steps out
        return None if (a == 0 and x > F(-3, 2)) or abs(a - want) <= 1 else 'quantize_to_step(%r, %r) = %d, nearest step is %d' % (t, sps, a, want)
    frac = x + F(1, 2) - math.floor(x + F(1, 2))
    near = min(frac, 1 - frac) <= (abs(x) + 1) * F(1, 2**51) and x < 2**52
    exact_tie = x.denominator == 2 and F(t * float(sps)) == x and x < 2**50
    if near and abs(a - want) == 1 and not exact_tie:
        return None
    return 'quantize_to_step(%r, %r) = %d, nearest step is %d (t*sps = %s%s)' % (
        t, sps, a, want, x if x.denominator <= 1024 else float(x), ', an exact half-step tie' if exact_tie else '')


def extreme_cases():
    """first and last legal value of every parameter and field, always run (not sampled): every denominator 2^0..2^30
    and the values beside them, numerators 1 / 2^31-1, steps_per_quarter 1 / 96, tempo 10 / 480, steps_per_second 1 / 1000,
    pitch 0 / 127, velocity 1 / 127, zero-length notes (at 0 too), empty sequences, exact half-step ties at the
    steps-per-second values whose reciprocal is not a double."""
    from note_seq.protobuf import music_pb2
    out = []

    def seq(times=((0.25, 0.75), (1.0, 2.0)), qpm=120.0, sig=None, pv=((60, 80), (64, 80))):
        ns = music_pb2.NoteSequence()
        ns.ticks_per_quarter = 220
        if qpm is not None:
            ns.tempos.add(qpm=qpm, time=0)
        if sig is not None:
            ns.time_signatures.add(numerator=sig[0], denominator=sig[1], time=0)
        for i, (a, b) in enumerate(times):
            p, v = pv[i % len(pv)]
            ns.notes.add(pitch=p, velocity=v, start_time=a, end_time=b)
        if times:
            ns.control_changes.add(time=times[0][0], control_number=64, control_value=127)
            ns.text_annotations.add(time=times[-1][0], text='C', annotation_type=music_pb2.NoteSequence.TextAnnotation.CHORD_SYMBOL)
        ns.total_time = max([b for _, b in times] + [0.0])
        return ns
    for i in range(31):
        for num in ((1, 4) if i % 2 else (3, 2 ** 31 - 1)):
            out.append(('rel', 4, seq(sig=(num, 2 ** i)), {'extreme:denominator=2^0..2^30'}))
        for d in (-1, 1):
            if i >= 2:
                out.append(('rel', 4, seq(sig=(4, 2 ** i + d)), {'extreme:denominator=2^k+-1'}))
    for den in (0, -1, -2 ** 30, -2 ** 31, 2 ** 31 - 1, 2 ** 30 + 2 ** 29):
        out.append(('rel', 4, seq(sig=(4, den)), {'extreme:denominator-illegal'}))
    for num in (0, -1, -2 ** 31):
        out.append(('rel', 4, seq(sig=(num, 4)), {'extreme:numerator'}))
    edge_notes = ((0.0, 0.0), (0.0, 5e-324), (1.0, 1.0), (2.0, 2.5))
    edge_pv = ((0, 1), (127, 127), (0, 127), (127, 1))
    for spq in (1, 96):
        for qpm in (10.0, 480.0, None):
            out.append(('rel', spq, seq(qpm=qpm), {'extreme:spq=%d qpm=%s' % (spq, qpm)}))
            out.append(('rel', spq, seq(times=edge_notes, qpm=qpm, pv=edge_pv), {'extreme:zero-length-notes,pitch/velocity-ends'}))
            out.append(('rel', spq, seq(times=(), qpm=qpm), {'extreme:empty'}))
    for sps in (1, 1000):
        out.append(('abs', sps, seq(), {'extreme:sps=%d' % sps}))
        out.append(('abs', sps, seq(times=edge_notes, pv=edge_pv), {'extreme:zero-length-notes,pitch/velocity-ends'}))
        out.append(('abs', sps, seq(times=(), qpm=None), {'extreme:empty'}))
    e = music_pb2.NoteSequence()
    out.append(('rel', 4, e, {'extreme:empty'}))
    out.append(('abs', 100, e, {'extreme:empty'}))
    # exact ties (dyadic times) at integer steps per second with an odd factor, absolute and through a tempo
    ties = ((0.5, 4.5), (0.75, 1.25), (1.5, 2.5), (3.5, 7.5))
    for sps in (3, 75, 77, 91, 93, 99, 105, 117, 123, 150, 154, 167, 182, 999):
        out.append(('abs', sps, seq(times=ties, qpm=None), {'extreme:exact-ties-odd-sps'}))
    for spq, qpm in ((33, 180.0), (31, 180.0), (25, 180.0), (3, 60.0), (95, 60.0)):
        out.append(('rel', spq, seq(times=ties, qpm=qpm), {'extreme:exact-ties-odd-sps'}))
    return out


def run(chk):
    from note_seq import sequences_lib as sl
    generate(chk)
    chk.prove(MODULES, THEOREMS, [EXE], extra_trusted=[
        'rne53 as a model of IEEE-754 binary64 arithmetic (validated bit-exactly by every request of this run)',
        'protobuf deepcopy semantics; CPython sorted() stability'])
    chk.prove_bridge([BRIDGE], [(BRIDGE, t) for t in BRIDGE_THEOREMS])
    chk.rule = ('generated unquantized sequences (0-40 notes, control changes, annotations, 0-3 tempos/time signatures in '
                'random storage order) with times from: arbitrary doubles, on-grid k/sps, half-step boundaries (k+1/2)/sps '
                'moved by -3..+3 ulps (step numbers up to 1e7, also as decimal literals), near-zero and negative times (the -1/2, '
                '-3/2, -2 step boundaries +-ulps), note ends equal to / ulps after / exactly one step after the start; for the '
                'rejection clause every equality decision gets its near-coincidence: later tempos 1-3 ulps and 1e-12..1e-6 relative '
                'beside the first, first tempo beside the default 120, tempo / time-signature times -0.0, +-5e-324, 1e-300 .. 1e-9 '
                'and one ulp beside each other, signatures differing in one component / ratio-equal, denominators around powers of '
                'two up to 2^31-1, zero and negative; decimal and MIDI-derived tempos; always-run extremes: every denominator 2^0..2^30 '
                'and 2^k+-1, steps_per_quarter 1/96, tempo 10/480, steps_per_second 1/1000, pitch 0/127, velocity 1/127, zero-length '
                'notes, empty sequences, dyadic exact half-step ties at odd steps per second; quantize_to_step at an exact tie for '
                'every integer steps_per_second 1..1000; steps_per_quarter_to_steps_per_second for every steps_per_quarter; '
                'non-trivial = distinct input whose result is a value or a documented error')
    rng = chk.subrng('corr')
    reqs, impl, cases = [], [], []
    gen = [gen_case(rng) for _ in range(chk.n(3000, 60000))]
    corp = []
    steps = []    # (t, sps, kind) for quantize_to_step on its own
    for name, o in corpus_cases(PID):
        if o['mode'] == 'step':
            steps.append((float(unrat(o['t'])), float(unrat(o['sps'])), 'corpus'))
            continue
        corp.append((o['mode'], int(o['resolution']), nswire.decode(o['sequence']), {'corpus'}))
    for mode, res, ns, hist in extreme_cases() + corp + gen:
        line = '%s %d %s' % (mode, res, nswire.encode(ns))
        f = sl.quantize_note_sequence if mode == 'rel' else sl.quantize_note_sequence_absolute
        reqs.append(line)
        impl.append(nswire.result_line(f, ns, res))
        cases.append((mode, res, ns, hist))
    # quantize_to_step directly: exact half-step ties at EVERY integer steps_per_second 1..1000 (int and float argument;
    # the first tie and a later one), then half-step boundaries +- ulps at mixed resolutions
    tie_rng = chk.subrng('ties')
    for sps in range(1, 1001):
        a = (sps & -sps).bit_length() - 1
        for i in (0, tie_rng.randrange(1, 2000)):
            steps.append((float(F(2 * i + 1, 2 ** (a + 1))), sps if i else float(sps), 'half-step:exact-tie:every-sps'))
    for i in range(chk.n(3000, 100000)):
        sps = rng.choice([1.0, 2.0, 8.0, 100.0, 1000.0, float(rng.randrange(1, 1001)), rng.randrange(1, 97) * 15.0 * rng.randrange(1, 33) / 60.0,
                          rng.randrange(1, 97) * rng.uniform(10, 480) / 60.0])
        t, kind = gen_time(rng, sps)
        steps.append((t, sps, kind))
    for t, sps, kind in steps:
        reqs.append('step %s %s' % (rat(t), rat(sps)))
        impl.append(step_line(sl, t, sps))
        cases.append(('step', kind, t, sps))
    # steps_per_quarter_to_steps_per_second: every steps_per_quarter 1..96 at the ends of the tempo range and in between
    n_sps = 0
    for spq in range(1, 97):
        for qpm in (10.0, 480.0, 120.0, 15.0 * rng.randrange(1, 33), rng.uniform(10, 480), 60e6 / rng.randrange(125000, 6000000)):
            reqs.append('sps %d %s' % (spq, rat(qpm)))
            impl.append(sps_line(sl, spq, qpm))
            cases.append(('sps', 'spq=1/96' if spq in (1, 96) else 'spq'))
    model = chk.driver(EXE, reqs)
    for req, a, b, c in zip(reqs, impl, model, cases):
        if c[0] == 'step':
            chk.count('quantize_to_step', req, True, c[1])
        elif c[0] == 'sps':
            chk.count('steps_per_quarter_to_steps_per_second', req, True, c[1])
        else:
            chk.count('quantize_' + c[0], req[:2000], b != 'bad-op', sorted(c[3]) + ['result:' + ' '.join(a.split()[:2]) if a.startswith('err') else 'result:ok'])
        if a != b:
            chk.disagree('quantize', {'request': req[:4000]}, a[:600], b[:600])
    chk.sample({'request': reqs[1][:300] + ' …', 'impl': impl[1][:200] + ' …', 'model_equal': impl[1] == model[1]})
    chk.sample({'request': reqs[-1], 'impl': impl[-1], 'model': model[-1]})
    # oracle on the implementation (independent of the model)
    for (c, req) in zip(cases, reqs):
        if c[0] == 'sps':
            continue
        if c[0] == 'step':
            chk.count('oracle', None, hist='quantize_to_step')
            r = oracle_step(sl, c[2], c[3])
            if r:
                chk.fail(r, {'mode': 'step', 't': rat(c[2]), 'sps': rat(c[3]), 'sps_is_int': isinstance(c[3], int)})
                if len(chk.failures) > 20:
                    break
            continue
        mode, res, ns, _ = c
        chk.count('oracle', None)
        r = oracle_case(sl, mode, res, ns)
        if r:
            chk.fail(r, {'mode': mode, 'resolution': res, 'sequence': req})
            if len(chk.failures) > 20:
                break


def step_line(sl, t, sps):
    try:
        return 'ok %d' % sl.quantize_to_step(t, sps)
    except Exception as e:  # pylint: disable=broad-except
        return 'err ' + type(e).__name__


def sps_line(sl, spq, qpm):
    try:
        return 'ok ' + rat(sl.steps_per_quarter_to_steps_per_second(spq, qpm))
    except Exception as e:  # pylint: disable=broad-except
        return 'err ' + type(e).__name__


def replay(chk, obj):
    from note_seq import sequences_lib as sl
    from note_seq.protobuf import music_pb2
    if obj.get('mode') == 'step':
        t, sps = float(unrat(obj['t'])), float(unrat(obj['sps']))
        if obj.get('sps_is_int'):
            sps = int(sps)
        print('replay C01: quantize_to_step(%r, %r) = %s' % (t, sps, step_line(sl, t, sps)))
        r = oracle_step(sl, t, sps)
        print('PROPERTY FAILS: %s' % r if r else 'property holds on this input')
        return 1 if r else 0
    print('replay C01:', obj.get('mode'), obj.get('resolution'))
    ns = nswire.decode(obj['sequence'])
    r = oracle_case(sl, obj['mode'], obj['resolution'], ns)
    print('PROPERTY FAILS: %s' % r if r else 'property holds on this input')
    return 1 if r else 0
