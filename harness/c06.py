"""C06 — rendering an event sequence to notes, quantizing and extracting again is the identity (DESIGN 6.6).

This module is the entry point of the check and owns Melody, DrumTrack, ChordProgression, LeadSheet and
PianorollSequence; `harness/c06_perf.py` (if present) adds Performance, MetricPerformance, NotePerformance.

Correspondence: the same (event list, start step, resolution, tempo, rendering / extraction parameters) through the
real `to_sequence` -> `quantize_note_sequence` -> extractor of /repo and through the compiled Lean composition
(`drv_c06`): the rendered NoteSequence (times as exact rationals of the doubles), the quantized NoteSequence and the
re-extracted events / start / end / bar length / resolution are compared exactly; so is the canonical-form predicate
(Lean `Canonical*` against an independent Python reading of the property text).
Oracle: the round trip on the implementation itself, for canonical inputs (outputs of the real extractors on random
quantized sequences, and directly generated canonical lists); it never uses the model."""
import inspect
import warnings
from fractions import Fraction

from harness import nswire
from harness.common import rat, unrat, corpus_cases

import os

try:
    from harness import c06_perf
except ImportError:
    c06_perf = None
if os.environ.get('VERIF_C06_NO_PERF'):      # development switch: run only this module's half
    c06_perf = None

PID = 'C06'
_P = 'NoteSeqVerif.Props.C06'
MODULES = [_P]
EXE = 'drv_c06'
# translator tie T2 (gen/translit2.py): seconds-per-step and start-time expressions of all eight to_sequence methods
BRIDGE = 'NoteSeqVerif.Props.C06_bridge'
BRIDGE_THEOREMS = ['NSV.C06.t2_melody_sps', 'NSV.C06.t2_melody_start', 'NSV.C06.t2_drums_sps', 'NSV.C06.t2_drums_start',
                   'NSV.C06.t2_chords_sps', 'NSV.C06.t2_chords_start', 'NSV.C06.t2_pianoroll_sps', 'NSV.C06.t2_pianoroll_start',
                   'NSV.C06.t2_performance_sps', 'NSV.C06.t2_metric_sps', 'NSV.C06.t2_noteperf_sps']
THEOREMS = [(_P, t) for t in [
    # float half (Proofs/C06Float.lean) and its composition with the C01 quantizer model (Proofs/C06Glue.lean)
    'NSV.C06.step_quantize_exact', 'NSV.C06.render_quantize_exact', 'NSV.C06.render_quantize_exact_metric',
    'NSV.C06.render_quantize_exact_abs', 'NSV.C06.quantize_rendered', 'NSV.C06.stepsPerBar_stepped',
    # DrumTrack
    'NSV.C06.roundtrip_Drums', 'NSV.C06.roundtrip_Drums_anyorder', 'NSV.C06.extract_canonical_Drums',
    # ChordProgression
    'NSV.C06.roundtrip_Chords', 'NSV.C06.extract_canonical_Chords',
    # PianorollSequence
    'NSV.C06.roundtrip_Pianoroll', 'NSV.C06.roundtrip_Pianoroll_anyorder', 'NSV.C06.extract_canonical_Pianoroll',
    # Melody
    'NSV.C06.roundtrip_Melody', 'NSV.C06.extract_canonical_Melody',
    # LeadSheet
    'NSV.C06.roundtrip_LeadSheet', 'NSV.C06.extract_canonical_LeadSheet',
]]

NO_EVENT, NOTE_OFF = -2, -1
QPMS = [120.0, 120.0, 60.0, 20.0, 300.0, 100.0 / 3.0, 119.99999999999999, 90.5, 137.3, 299.99999999999994,
        20.000000000000004, 200.0 / 7.0, 97.0]
SPQS = [1, 2, 3, 4, 4, 6, 8, 12, 24]
FIGS = ['C', 'Am', 'G7', 'N.C.', 'F#m7b5', 'Dm', 'N.C.', 'Bb13', 'C']
DRUMS = [36, 38, 42, 46, 49, 51, 35, 60]


def _libs():
    warnings.filterwarnings('ignore')
    from note_seq import (melodies_lib as ml, drums_lib as dl, chords_lib as cl, lead_sheets_lib as ll,
                          pianoroll_lib as prl, sequences_lib as sl, events_lib as el, constants)
    return ml, dl, cl, ll, prl, sl, el, constants


def generate(chk):
    """Generated/C06.lean (+ the generated constants of the imported C01 / C07 models) from the working tree."""
    ml, dl, cl, ll, prl, sl, el, constants = _libs()
    from harness import c01, c07
    c01.generate(chk)
    c07.generate(chk)
    ppq = {m.__name__: m.STANDARD_PPQ for m in (ml, dl, cl, prl)}
    if len(set(ppq.values())) != 1:
        chk.broken.append('generate:C06 STANDARD_PPQ differs between the libraries: %s' % ppq)
    txt = ('/-! GENERATED from /repo on every run by harness/c06.py — do not edit. -/\n'
           'namespace NSV.C06.Gen\n'
           'def STANDARD_PPQ : Int := %d\n' % ml.STANDARD_PPQ
           + 'def MIN_MIDI_PITCH : Int := %d\ndef MAX_MIDI_PITCH : Int := %d\n' % (ml.MIN_MIDI_PITCH, ml.MAX_MIDI_PITCH)
           + 'end NSV.C06.Gen\n')
    chk.regenerate('NoteSeqVerif/Generated/C06.lean', txt)
    # translator tie T2: the float preamble of every to_sequence (seconds per step, start time) by symbolic execution
    from harness.t2 import generate_t2
    from note_seq import performance_lib as pfl
    rel = {'self.steps_per_quarter': ('spq', 'int'), 'self.start_step': ('start_step', 'int')}
    generate_t2(chk, 'C06', [
        dict(fn=ml.Melody.to_sequence, module=ml, name='melody_to_sequence', params={'sequence_start_time': 'float', 'qpm': 'float'},
             paths=rel, export=['seconds_per_step', 'sequence_start_time']),
        dict(fn=dl.DrumTrack.to_sequence, module=dl, name='drums_to_sequence', params={'sequence_start_time': 'float', 'qpm': 'float'},
             paths=rel, export=['seconds_per_step', 'sequence_start_time']),
        dict(fn=cl.ChordProgression.to_sequence, module=cl, name='chords_to_sequence', params={'sequence_start_time': 'float', 'qpm': 'float'},
             paths=rel, export=['seconds_per_step', 'sequence_start_time']),
        dict(fn=prl.PianorollSequence.to_sequence, module=prl, name='pianoroll_to_sequence', params={'qpm': 'float'},
             paths={'self._steps_per_quarter': ('spq', 'int'), 'self.start_step': ('start_step', 'int')},
             export=['seconds_per_step', 'sequence_start_time']),
        dict(fn=pfl.Performance.to_sequence, module=pfl, name='performance_to_sequence',
             paths={'self.steps_per_second': ('sps', 'int')}, export=['seconds_per_step']),
        dict(fn=pfl.MetricPerformance.to_sequence, module=pfl, name='metric_to_sequence', params={'qpm': 'float'},
             paths={'self.steps_per_quarter': ('spq', 'int')}, export=['seconds_per_step']),
        dict(fn=pfl.NotePerformance.to_sequence, module=pfl, name='noteperf_to_sequence',
             paths={'self.steps_per_second': ('sps', 'int')}, export=['seconds_per_step']),
    ], imports=('NoteSeqVerif.Common.Float',))
    if c06_perf is not None and hasattr(c06_perf, 'generate'):
        c06_perf.generate(chk)


def defaults(f):
    return {k: v.default for k, v in inspect.signature(f).parameters.items() if v.default is not inspect.Parameter.empty}


# ----------------------------------------------------------------------------- wire
def b(x):
    return '1' if x else '0'


def wlist(items):
    items = list(items)
    return ' '.join([str(len(items))] + [str(i) for i in items])


def req_line(c):
    k = c['kind']
    if k == 'melody':
        return ' '.join(['melody', str(c['spq']), str(c['S']), rat(c['qpm']), rat(c['t0']), str(c['vel']), str(c['inst']),
                         str(c['prog']), str(c['ss']), str(c['gap']), b(c['ip']), b(c['pad']), b(c['fd']), wlist(c['ev'])])
    if k == 'drums':
        return ' '.join(['drums', str(c['spq']), str(c['S']), rat(c['qpm']), rat(c['t0']), str(c['vel']), str(c['inst']),
                         str(c['prog']), str(c['ss']), str(c['gap']), b(c['pad']), b(c['ign']),
                         wlist(wlist(e) for e in c['ev'])])
    if k == 'chords':
        return ' '.join(['chords', str(c['spq']), str(c['S']), rat(c['qpm']), rat(c['t0']), wlist(nswire.hx(f) for f in c['ev'])])
    if k == 'lead':
        return ' '.join(['lead', str(c['spq']), str(c['S']), rat(c['qpm']), rat(c['t0']), str(c['vel']), str(c['inst']),
                         str(c['ss']), str(c['gap']), b(c['ip']), b(c['pad']), b(c['fd']), wlist(c['ev']),
                         wlist(nswire.hx(f) for f in c['ch'])])
    if k == 'roll':
        return ' '.join(['roll', str(c['spq']), str(c['S']), rat(c['qpm']), str(c['vel']), str(c['inst']), str(c['prog']),
                         str(c['lo']), str(c['hi']), b(c['split']), wlist(wlist(e) for e in c['ev'])])
    raise ValueError(k)


def canon_ns(line):
    """notes of an `ok NS …` line sorted by (start, end, pitch): the storage order of notes that start together comes
    from CPython set iteration and is not part of what is compared (the theorems hold for every order)."""
    t = line.split()
    if len(t) < 2 or t[0] != 'ok' or t[1] != 'NS':
        return line
    i = 11
    n = int(t[i])
    rows = [t[i + 1 + 14 * j: i + 1 + 14 * (j + 1)] for j in range(n)]
    rows.sort(key=lambda r: (unrat(r[2]), unrat(r[3]), int(r[0])))
    return ' '.join(t[:i + 1] + [x for r in rows for x in r] + t[i + 1 + 14 * n:])


def simple_line(r, f):
    return 'ok %d %d %d %d %s' % (r.start_step, r.end_step, r.steps_per_bar, r.steps_per_quarter, wlist(f(x) for x in r))


# ----------------------------------------------------------------------------- implementation side
def build(c):
    """the event-sequence object of the case"""
    ml, dl, cl, ll, prl, sl, el, constants = _libs()
    k, spq, S = c['kind'], c['spq'], c['S']
    if k == 'melody':
        return ml.Melody(list(c['ev']), start_step=S, steps_per_bar=4 * spq, steps_per_quarter=spq)
    if k == 'drums':
        return dl.DrumTrack([frozenset(e) for e in c['ev']], start_step=S, steps_per_bar=4 * spq, steps_per_quarter=spq)
    if k == 'chords':
        return cl.ChordProgression(list(c['ev']), start_step=S, steps_per_bar=4 * spq, steps_per_quarter=spq)
    if k == 'lead':
        return ll.LeadSheet(ml.Melody(list(c['ev']), start_step=S, steps_per_bar=4 * spq, steps_per_quarter=spq),
                            cl.ChordProgression(list(c['ch']), start_step=S, steps_per_bar=4 * spq, steps_per_quarter=spq))
    if k == 'roll':
        return prl.PianorollSequence(events_list=[tuple(e) for e in c['ev']], steps_per_quarter=spq, start_step=S,
                                     min_pitch=c['lo'], max_pitch=c['hi'])
    raise ValueError(k)


def render(c, obj):
    k = c['kind']
    if k in ('melody', 'drums'):
        return obj.to_sequence(velocity=c['vel'], instrument=c['inst'], program=c['prog'], sequence_start_time=c['t0'], qpm=c['qpm'])
    if k == 'chords':
        return obj.to_sequence(sequence_start_time=c['t0'], qpm=c['qpm'])
    if k == 'lead':
        return obj.to_sequence(velocity=c['vel'], instrument=c['inst'], sequence_start_time=c['t0'], qpm=c['qpm'])
    return obj.to_sequence(velocity=c['vel'], instrument=c['inst'], program=c['prog'], qpm=c['qpm'])


def extract(c, q):
    """the extractor applied to the quantized sequence; returns the objects"""
    ml, dl, cl, ll, prl, sl, el, constants = _libs()
    k = c['kind']
    if k == 'melody':
        r = ml.Melody()
        r.from_quantized_sequence(q, search_start_step=c['ss'], instrument=c['inst'], gap_bars=c['gap'],
                                  ignore_polyphonic_notes=c['ip'], pad_end=c['pad'], filter_drums=c['fd'])
        return r
    if k == 'drums':
        r = dl.DrumTrack()
        r.from_quantized_sequence(q, search_start_step=c['ss'], gap_bars=c['gap'], pad_end=c['pad'], ignore_is_drum=c['ign'])
        return r
    if k == 'chords':
        r = cl.ChordProgression()
        r.from_quantized_sequence(q, c['S'], c['S'] + len(c['ev']))
        return r
    if k == 'lead':
        m = ml.Melody()
        m.from_quantized_sequence(q, search_start_step=c['ss'], instrument=c['inst'], gap_bars=c['gap'],
                                  ignore_polyphonic_notes=c['ip'], pad_end=c['pad'], filter_drums=c['fd'])
        ch = cl.ChordProgression()
        ch.from_quantized_sequence(q, m.start_step, m.end_step)
        return (m, ch)
    return prl.PianorollSequence(quantized_sequence=q, start_step=c['S'], min_pitch=c['lo'], max_pitch=c['hi'],
                                 split_repeats=c['split'])


def final_line(c, r):
    k = c['kind']
    if k == 'melody':
        return simple_line(r, lambda x: int(x))
    if k == 'drums':
        return simple_line(r, lambda e: wlist(sorted(e)))
    if k == 'chords':
        return simple_line(r, nswire.hx)
    if k == 'lead':
        return simple_line(r[0], lambda x: int(x)) + ' ; ' + simple_line(r[1], nswire.hx)[3:]
    return 'ok %d %d %s' % (r.start_step, r.steps_per_quarter, wlist(wlist(int(x) for x in e) for e in r))


def run_impl(c):
    """(rendered, quantized, extracted) response parts in the driver's format"""
    ml, dl, cl, ll, prl, sl, el, constants = _libs()
    try:
        ns = render(c, build(c))
    except Exception as e:  # pylint: disable=broad-except
        x = 'err render:' + type(e).__name__
        return 'err ' + type(e).__name__, x, x
    a = 'ok ' + nswire.encode(ns)
    try:
        q = sl.quantize_note_sequence(ns, c['spq'])
    except Exception as e:  # pylint: disable=broad-except
        x = 'err quantize:' + type(e).__name__
        return a, x, x
    bq = 'ok ' + nswire.encode(q)
    try:
        r = extract(c, q)
    except Exception as e:  # pylint: disable=broad-except
        return a, bq, 'err extract:' + type(e).__name__
    return a, bq, final_line(c, r)


# ----------------------------------------------------------------------------- canonical forms (from the property text)
def is_pitch(x):
    return 0 <= x <= 127


def canon_melody(ev, bar, gap, pad, ss, S):
    """a melody starting in the bar of its first note, NOTE_OFF only to end a sounding note, no silence of gap_bars
    bars inside, no trailing NOTE_OFF / silence (with pad_end: rounded up to the bar)"""
    if not ev:
        return S == 0
    if any(not -2 <= x <= 127 for x in ev) or ss < 0 or S < ss or (S - ss) % bar:
        return False
    nz = [(i, x) for i, x in enumerate(ev) if x != NO_EVENT]
    if not nz or not is_pitch(nz[0][1]) or nz[0][0] >= bar:
        return False
    for (i, x), (j, y) in zip(nz, nz[1:]):
        if x == NOTE_OFF and y == NOTE_OFF:
            return False
        if x == NOTE_OFF and j - i >= gap:
            return False
    li, lx = nz[-1]
    if not pad:
        return is_pitch(lx)
    if len(ev) % bar:
        return False
    return is_pitch(lx) or len(ev) - bar < li


def canon_drums(ev, bar, gap, pad, ss, S):
    if not ev:
        return S == 0
    if any(list(e) != sorted(set(e)) for e in ev) or ss < 0 or S < ss or (S - ss) % bar:
        return False
    hits = [i for i, e in enumerate(ev) if e]
    if not hits or hits[0] >= bar:
        return False
    if any(j - (i + 1) >= gap for i, j in zip(hits, hits[1:])):
        return False
    n0 = hits[-1] + 1
    return len(ev) == n0 + ((-n0) % bar if pad else 0)


def canon_roll(ev, lo, hi, S):
    return S >= 0 and lo <= hi + 1 and all(list(e) == sorted(set(e)) and all(0 <= p <= hi - lo for p in e) for e in ev)


def py_canon(c):
    k, bar = c['kind'], 4 * c['spq']
    if bar <= 0:
        return None          # no bar length: the predicate is not compared
    if k == 'melody':
        return canon_melody(c['ev'], bar, c['gap'] * bar, c['pad'], c['ss'], c['S'])
    if k == 'drums':
        return canon_drums(c['ev'], bar, c['gap'] * bar, c['pad'], c['ss'], c['S'])
    if k == 'chords':
        return len(c['ev']) > 0 and c['S'] >= 0
    if k == 'lead':
        return (len(c['ev']) > 0 and len(c['ch']) == len(c['ev'])
                and canon_melody(c['ev'], bar, c['gap'] * bar, c['pad'], c['ss'], c['S']))
    return canon_roll(c['ev'], c['lo'], c['hi'], c['S'])


def in_quantifier(c):
    """the statement's domain: canonical list, default sequence_start_time, positive tempo and resolution, notes
    that survive the extractor's filters (non-zero velocity), gap_bars >= 1, steps below 2^40"""
    if not py_canon(c) or c.get('t0', 0.0) != 0.0 or not c['qpm'] > 0 or c['spq'] < 1:
        return False
    if c['kind'] in ('melody', 'drums', 'lead') and (c['vel'] == 0 or c['gap'] < 1):
        return False
    n = len(c['ev'])
    return c['S'] + n < 2 ** 40


# ----------------------------------------------------------------------------- oracle
def oracle(c):
    """None = the round trip is the identity on this input (or the input is outside the quantifier)."""
    if not in_quantifier(c):
        return None
    ml, dl, cl, ll, prl, sl, el, constants = _libs()
    k, spq, S = c['kind'], c['spq'], c['S']
    try:
        obj = build(c)
        q = sl.quantize_note_sequence(render(c, obj), spq)
        r = extract(c, q)
        if k == 'lead':
            back = ll.LeadSheet(r[0], r[1])
            got = ([int(x) for x in back.melody], list(back.chords), back.start_step, back.end_step,
                   back.steps_per_quarter, back.steps_per_bar)
            want = ([int(x) for x in c['ev']], list(c['ch']), S, S + len(c['ev']), spq, 4 * spq)
        elif k == 'roll':
            got = ([tuple(int(x) for x in e) for e in r], r.start_step, r.end_step, r.steps_per_quarter)
            want = ([tuple(e) for e in c['ev']], S, S + len(c['ev']), spq)
        else:
            conv = {'melody': int, 'drums': lambda e: tuple(sorted(e)), 'chords': str}[k]
            got = ([conv(x) for x in r], r.start_step, r.end_step, r.steps_per_quarter, r.steps_per_bar)
            want = ([conv(x) for x in c['ev']], S, S + len(c['ev']), spq, 4 * spq)
            if not c['ev']:
                want = ([], 0, 0, spq, 4 * spq)
    except Exception as e:  # pylint: disable=broad-except
        return 'round trip raised %s: %s' % (type(e).__name__, str(e)[:100])
    if got != want:
        if got[0] != want[0]:
            bad = [i for i, (x, y) in enumerate(zip(got[0], want[0])) if x != y][:1]
            return '%s events differ after the round trip (len %d, was %d; first difference at %s)' % (
                k, len(got[0]), len(want[0]), bad or 'the end')
        return '%s round trip changed (start, end, resolution…): got %s, was %s' % (k, got[1:], want[1:])
    return None


# ----------------------------------------------------------------------------- generators
def pick_qpm(rng):
    k = rng.random()
    if k < 0.5:
        return rng.choice(QPMS)
    if k < 0.9:
        return 20.0 + rng.random() * 280.0
    return nswire.nextafter_n(rng.choice([20.0, 60.0, 120.0, 300.0, 100.0 / 3.0]), rng.randrange(-3, 4))


def pick_start(rng, bar):
    k = rng.random()
    if k < 0.35:
        return 0
    if k < 0.8:
        return bar * rng.choice([1, 2, 3, 5, 17, 64])
    return bar * rng.choice([1000, 12345, 10 ** 6, 2 ** 24 + 1])


def base_case(rng, kind):
    spq = rng.choice(SPQS)
    bar = 4 * spq
    S = pick_start(rng, bar)
    c = {'kind': kind, 'spq': spq, 'S': S, 'qpm': pick_qpm(rng), 't0': 0.0,
         'vel': rng.choice([100, 100, 1, 127, rng.randrange(1, 128)]), 'inst': rng.choice([0, 0, 1, 9]),
         'prog': rng.choice([0, 0, 5, 40])}
    if kind in ('melody', 'drums', 'lead'):
        c['ss'] = rng.choice([0, S, S, max(S - bar, 0), max(S - 3 * bar, 0)])
        c['gap'] = rng.choice([1, 1, 2, 3])
        c['pad'] = rng.random() < 0.5
    if kind in ('melody', 'lead'):
        c['ip'] = rng.random() < 0.5
        c['fd'] = rng.random() < 0.5
    if kind == 'drums':
        c['ign'] = rng.random() < 0.4
        c['inst'] = rng.choice([9, 9, 0, 3])
    if kind == 'lead':
        c.pop('prog')
    if kind == 'roll':
        c.pop('t0')
        c['lo'], c['hi'] = rng.choice([(0, 127), (21, 108), (60, 72), (36, 64), (60, 60), (62, 127)])
        c['split'] = rng.random() < 0.6
    return c


def gen_melody_events(rng, bar, gap, pad, hist):
    ev = [NO_EVENT] * rng.choice([0, 0, 1, bar - 1, rng.randrange(0, bar)])
    m = rng.choice([1, 1, 2, 3, 5, 8, 12])
    for i in range(m):
        p = rng.choice([60, 62, 64, 67, 72, 0, 127, rng.randrange(0, 128)])
        d = rng.choice([1, 1, 2, 3, 4, bar, rng.randrange(1, 2 * bar + 1)])
        ev += [p] + [NO_EVENT] * (d - 1)
        if i == m - 1:
            break
        k = rng.random()
        if k < 0.45:
            hist.add('melody:note-cut-by-next')
        else:
            # NOTE_OFF, then g steps of silence; the next note starts g + 1 steps after the NOTE_OFF, must be < gap
            if gap - 2 < 0:
                continue
            g = rng.choice([0, 0, 1, gap - 2, gap - 2, rng.randrange(0, gap - 1)])
            if g == gap - 2:
                hist.add('melody:silence-one-short-of-gap')
            ev += [NOTE_OFF] + [NO_EVENT] * g
            hist.add('melody:note-off')
    if pad:
        j = len(ev)
        if j % bar:
            if rng.random() < 0.5:
                ev += [NOTE_OFF] + [NO_EVENT] * ((-(j + 1)) % bar)
                hist.add('melody:padded-after-note-off')
            else:
                ev += [NO_EVENT] * ((-j) % bar)
                hist.add('melody:sustained-to-bar-line')
        else:
            hist.add('melody:ends-on-bar-line')
    return ev


def gen_drum_events(rng, bar, gap, pad, hist):
    ev = [[] for _ in range(rng.choice([0, 0, 1, bar - 1, rng.randrange(0, bar)]))]
    m = rng.choice([1, 2, 4, 8, 16, 30])
    for i in range(m):
        ev.append(sorted(set(rng.choice(DRUMS + [rng.randrange(0, 128)]) for _ in range(rng.choice([1, 1, 2, 3, 5])))))
        if i == m - 1:
            break
        e = rng.choice([0, 0, 0, 1, 3, gap - 1, gap - 1, rng.randrange(0, gap)])
        if e == gap - 1:
            hist.add('drums:silence-one-short-of-gap')
        ev += [[] for _ in range(e)]
    if pad:
        ev += [[] for _ in range((-len(ev)) % bar)]
        hist.add('drums:padded')
    return ev


def gen_chord_events(rng, n, hist):
    ev, cur = [], rng.choice(FIGS)
    while len(ev) < n:
        run = rng.choice([1, 1, 2, 4, 8, 16])
        ev += [cur] * run
        nxt = rng.choice(FIGS + ['', 'x y'])
        cur = nxt
    ev = ev[:n]
    if ev and ev[0] == 'N.C.':
        hist.add('chords:starts-with-no-chord')
    if 'N.C.' in ev[1:]:
        hist.add('chords:no-chord-inside')
    return ev


def gen_roll_events(rng, n, width, hist):
    ev, cur = [], set()
    for i in range(n):
        k = rng.random()
        if k < 0.15:
            cur = set()
        else:
            cur = {p for p in cur if rng.random() < 0.7}
            for _ in range(rng.choice([0, 0, 1, 1, 2, 4])):
                cur.add(rng.randrange(0, width + 1) if rng.random() < 0.6 else rng.choice([0, width, width // 2]))
        ev.append(sorted(cur))
    if n and rng.random() < 0.35:
        t = rng.choice([1, 1, 2, 5])
        ev[-t:] = [[] for _ in range(min(t, n))]
        hist.add('roll:trailing-silence')
    if any(a and b and set(a) & set(b) for a, b in zip(ev, ev[1:])):
        hist.add('roll:sustained-note')
    if any(set(a) & set(c2) - set(b2) for a, b2, c2 in zip(ev, ev[1:], ev[2:])):
        hist.add('roll:restrike-after-one-silent-frame')
    if ev and ev[0]:
        hist.add('roll:note-at-frame-0')
    return ev


def gen_direct(rng, kind, hist):
    c = base_case(rng, kind)
    bar = 4 * c['spq']
    hist.add('route:direct')
    if kind == 'melody':
        c['ev'] = gen_melody_events(rng, bar, c['gap'] * bar, c['pad'], hist)
    elif kind == 'drums':
        c['ev'] = gen_drum_events(rng, bar, c['gap'] * bar, c['pad'], hist)
    elif kind == 'chords':
        c['ev'] = gen_chord_events(rng, rng.choice([1, 2, bar, 2 * bar, 3 * bar + 1, rng.randrange(1, 4 * bar + 1)]), hist)
    elif kind == 'lead':
        c['ev'] = gen_melody_events(rng, bar, c['gap'] * bar, c['pad'], hist)
        c['ch'] = gen_chord_events(rng, len(c['ev']), hist)
    else:
        c['ev'] = gen_roll_events(rng, rng.choice([0, 1, 2, bar, 2 * bar, 3 * bar + 1]), c['hi'] - c['lo'], hist)
    return c


def gen_source(rng, spq, hist):
    """a random relative-quantized 4/4 sequence (notes on 1-3 instruments, drums, chords) — the material the real
    extractors are run on to obtain canonical event lists"""
    from note_seq.protobuf import music_pb2
    ns = music_pb2.NoteSequence()
    ns.quantization_info.steps_per_quarter = spq
    t = ns.time_signatures.add()
    t.numerator, t.denominator = 4, 4
    ns.tempos.add().qpm = 120.0
    bar = 4 * spq
    secs = 60.0 / (120.0 * spq)
    nbars = rng.choice([1, 2, 3, 4, 6])
    off = bar * rng.choice([0, 0, 1, 3])
    mx = 0
    mono = rng.random() < 0.6
    cursor = off + rng.randrange(0, bar)
    for _ in range(rng.choice([1, 2, 4, 8, 14, 25])):
        n = ns.notes.add()
        if mono:
            a = cursor
            d = rng.choice([1, 1, 2, 3, 4, bar])
            cursor = a + d + rng.choice([0, 0, 0, 1, 2, bar - 1, bar, 2 * bar])
        else:
            a = off + rng.randrange(0, nbars * bar)
            d = rng.choice([1, 1, 2, 3, 4, bar, rng.randrange(1, 2 * bar + 1)])
        n.quantized_start_step, n.quantized_end_step = a, a + d
        n.start_time, n.end_time = a * secs, (a + d) * secs
        n.pitch = rng.choice([60, 62, 64, 67, 36, 38, 42, rng.randrange(0, 128)])
        n.velocity = rng.choice([100, 64, 1, 127, 0]) if rng.random() < 0.15 else 100
        n.instrument = rng.choice([0, 0, 0, 1, 9])
        n.is_drum = rng.random() < (0.8 if n.instrument == 9 else 0.1)
        mx = max(mx, a + d)
    if rng.random() < 0.3:
        # quantization coincidence: two notes of one pitch, disjoint in time, rounded onto one start step with
        # different end steps, stored in either order (Melody extraction orders them by start time)
        a = off + rng.randrange(0, nbars * bar)
        d = rng.choice([2, 3, 4])
        pitch = rng.choice([72, 76, 79, 60])
        pair = [(a, a + 1, max(a - 0.4, 0.0), a - 0.1 if a > 0 else 0.3), (a, a + d, a + 0.35, float(a + d))]
        if rng.random() < 0.5:
            pair.reverse()
        for (qs, qe, st, et) in pair:
            n = ns.notes.add()
            n.quantized_start_step, n.quantized_end_step = qs, qe
            n.start_time, n.end_time = st * secs, et * secs
            n.pitch, n.velocity, n.instrument, n.is_drum = pitch, 100, 0, False
        mx = max(mx, a + d)
        hist.add('source:same-pitch-one-step-disjoint-times')
    for _ in range(rng.choice([0, 1, 2, 4])):
        x = ns.text_annotations.add()
        x.quantized_step = off + rng.choice([0, bar, rng.randrange(0, nbars * bar + 1)])
        x.text = rng.choice(FIGS)
        x.annotation_type = 1
        x.time = x.quantized_step * secs
    if rng.random() < 0.3:
        # two chord symbols at distinct times rounded onto one step, different figures, either storage order
        # (ChordProgression extraction from a later start step takes the later one)
        c = off + rng.choice([0, 1, bar - 1, rng.randrange(0, nbars * bar + 1)])
        f = rng.sample(sorted(set(FIGS)), 2)
        pair = [(max(c - 0.3, 0.0) * secs, f[0]), ((c + 0.2) * secs, f[1])]
        if rng.random() < 0.5:
            pair.reverse()
        for (t, fig) in pair:
            x = ns.text_annotations.add()
            x.quantized_step, x.text, x.annotation_type, x.time = c, fig, 1, t
        hist.add('source:chords-one-step-distinct-times')
    ns.total_quantized_steps = mx + rng.choice([0, 0, 1, bar])
    ns.total_time = mx * secs
    hist.add('source:monophonic' if mono else 'source:polyphonic')
    return ns


def gen_extracted(rng, kind, hist):
    """canonical by definition: what the real extractor returns on a random quantized sequence (None if it raises
    or returns nothing)"""
    ml, dl, cl, ll, prl, sl, el, constants = _libs()
    c = base_case(rng, kind)
    spq = c['spq']
    bar = 4 * spq
    src = gen_source(rng, spq, hist)
    hist.add('route:extracted')
    try:
        if kind in ('melody', 'lead'):
            ss = bar * rng.choice([0, 0, 1, 3]) + rng.choice([0, 0, 0, 1, 5])
            inst = rng.choice([0, 0, 1])
            m = ml.Melody()
            m.from_quantized_sequence(src, search_start_step=ss, instrument=inst, gap_bars=c['gap'],
                                      ignore_polyphonic_notes=True, pad_end=c['pad'], filter_drums=True)
            if not len(m):
                return None
            c.update(ss=ss, S=m.start_step, ev=[int(x) for x in m])
            if kind == 'lead':
                ch = cl.ChordProgression()
                ch.from_quantized_sequence(src, m.start_step, m.end_step)
                c['ch'] = list(ch)
        elif kind == 'drums':
            ss = bar * rng.choice([0, 0, 1, 3]) + rng.choice([0, 0, 0, 1, 5])
            d = dl.DrumTrack()
            d.from_quantized_sequence(src, search_start_step=ss, gap_bars=c['gap'], pad_end=c['pad'],
                                      ignore_is_drum=rng.random() < 0.5)
            if not len(d):
                return None
            c.update(ss=ss, S=d.start_step, ev=[sorted(e) for e in d])
        elif kind == 'chords':
            a = rng.choice([0, bar, rng.randrange(0, src.total_quantized_steps + 1)])
            cs = [x.quantized_step for x in src.text_annotations]
            shared = sorted({x for x in cs if cs.count(x) > 1})
            if shared and rng.random() < 0.6:      # start after a step that two chord symbols share
                a = rng.choice(shared) + rng.choice([1, 2, bar])
                hist.add('source:chords-start-after-shared-step')
            e = a + rng.choice([1, bar, 2 * bar, rng.randrange(1, 3 * bar)])
            ch = cl.ChordProgression()
            ch.from_quantized_sequence(src, a, e)
            c.update(S=a, ev=list(ch))
        else:
            T = src.total_quantized_steps
            a = rng.choice([0, 0, min(bar, T), min(3 * bar, T)])
            r = prl.PianorollSequence(quantized_sequence=src, start_step=a, min_pitch=c['lo'], max_pitch=c['hi'],
                                      split_repeats=rng.random() < 0.6)
            c.update(S=a, ev=[[int(x) for x in e] for e in r])
    except (ml.PolyphonicMelodyError, cl.CoincidentChordsError, el.NonIntegerStepsPerBarError):
        return None
    except Exception as e:  # pylint: disable=broad-except
        # the real extractor raised something other than its documented errors on a valid quantized sequence:
        # not a machinery error - "what extraction itself produces" does not exist for this input (reported by run())
        UNEXPECTED.append({'kind': 'extract-crash', 'what': kind, 'error': '%s: %s' % (type(e).__name__, e),
                           'source': nswire.encode(src), 'params': {k: v for k, v in c.items() if k not in ('ev', 'ch')}})
        return None
    return c


UNEXPECTED = []


def replay_extract_crash(obj):
    ml, dl, cl, ll, prl, sl, el, constants = _libs()
    src, c, kind = nswire.decode(obj['source']), obj['params'], obj['what']
    bad = None
    for ss in sorted(set([c.get('ss', 0), 0, 1, 5] + [4 * c['spq'] * b for b in (1, 3)])):
        for inst in (0, 1):
            try:
                if kind in ('melody', 'lead'):
                    ml.Melody().from_quantized_sequence(src, search_start_step=ss, instrument=inst, gap_bars=c['gap'],
                                                        ignore_polyphonic_notes=True, pad_end=c['pad'], filter_drums=True)
                elif kind == 'drums':
                    for ig in (False, True):
                        dl.DrumTrack().from_quantized_sequence(src, search_start_step=ss, gap_bars=c['gap'],
                                                               pad_end=c['pad'], ignore_is_drum=ig)
                elif kind == 'chords':
                    cl.ChordProgression().from_quantized_sequence(src, ss, ss + 4 * c['spq'])
                else:
                    for sr in (False, True):
                        prl.PianorollSequence(quantized_sequence=src, start_step=min(ss, src.total_quantized_steps),
                                              min_pitch=c['lo'], max_pitch=c['hi'], split_repeats=sr)
            except (ml.PolyphonicMelodyError, cl.CoincidentChordsError, el.NonIntegerStepsPerBarError):
                pass
            except Exception as e:  # pylint: disable=broad-except
                bad = '%s extraction raised %s: %s on a valid quantized sequence' % (kind, type(e).__name__, e)
    return bad


def spoil(rng, c, hist):
    """turn a canonical case into one that (usually) is not canonical"""
    k, ev = c['kind'], [list(e) if isinstance(e, list) else e for e in c['ev']]
    bar = 4 * c['spq']
    j = rng.randrange(8)
    hist.add('spoil:%d' % j)
    if k in ('melody', 'lead'):
        if j == 0:
            ev = ev + [NOTE_OFF]
        elif j == 1:
            ev = ev + [NO_EVENT] * rng.choice([1, bar])
        elif j == 2:
            ev = [NO_EVENT] * bar + ev
        elif j == 3 and ev:
            i = rng.randrange(len(ev))
            ev = ev[:i] + [NOTE_OFF, NOTE_OFF] + ev[i:]
        elif j == 4 and ev:
            i = rng.randrange(len(ev))
            ev = ev[:i] + [NOTE_OFF] + [NO_EVENT] * (c['gap'] * bar) + ev[i:]
        elif j == 5:
            c['S'] += rng.choice([1, bar // 2 or 1])
        elif j == 6:
            ev = []
        else:
            ev = [NOTE_OFF] + ev[1:] if ev else ev
        if k == 'lead':
            c['ch'] = (c['ch'] + ['C'] * len(ev))[:len(ev)]
    elif k == 'drums':
        if j == 0:
            ev = ev + [[]]
        elif j == 1:
            ev = [[] for _ in range(bar)] + ev
        elif j == 2 and ev:
            i = rng.randrange(len(ev))
            ev = ev[:i] + [[] for _ in range(c['gap'] * bar)] + ev[i:]
        elif j == 3:
            c['S'] += 1
        elif j == 4:
            ev = [[] for _ in ev]
        elif j == 5:
            ev = []
        elif j == 6 and ev:
            ev[-1] = []
        else:
            c['pad'] = not c['pad']
    elif k == 'chords':
        ev = [] if j < 4 else ev
        if j >= 6:
            c['S'] = -c['S'] - 1
    else:
        if j < 3 and ev:
            i = rng.randrange(len(ev))
            ev[i] = ev[i] + [c['hi'] - c['lo'] + 1]
        elif j < 5 and ev:
            i = rng.randrange(len(ev))
            ev[i] = list(reversed(ev[i])) + ev[i][:1]
        else:
            c['S'] = -1 - c['S']
    c['ev'] = ev
    return c


def gen_malformed(rng, hist):
    kind = rng.choice(['melody', 'drums', 'chords', 'lead', 'roll'])
    c = gen_direct(rng, kind, set())
    j = rng.randrange(6)
    hist.add('malformed:%d' % j)
    if j == 0:
        c['qpm'] = 0.0
    elif j == 1:
        c['spq'] = 0
    elif j == 2:
        c['S'] = -rng.choice([1, 4 * max(c['spq'], 1)])
    elif j == 3 and 't0' in c:
        c['t0'] = rng.choice([0.5, 1.0, 0.1, rng.random() * 4])
    elif j == 4 and kind in ('melody', 'drums', 'lead'):
        c['vel'] = 0
    elif kind in ('melody', 'drums', 'lead'):
        c['gap'] = rng.choice([0, -1])
    return c


# ----------------------------------------------------------------------------- running cases
def branches(c, final):
    h = ['kind:' + c['kind'], 'spq:%d' % c['spq'], 'result:' + (final.split()[1] if final.startswith('err') else 'ok')]
    h.append('start:0' if c['S'] == 0 else 'start:bars' if c['S'] < 10 ** 4 else 'start:huge')
    q = c['qpm']
    h.append('qpm:integer' if q == int(q) else 'qpm:non-integer')
    if c['kind'] in ('melody', 'drums', 'lead'):
        h.append('pad_end:%s' % b(c['pad']))
        h.append('search_start:%s' % ('0' if c['ss'] == 0 else 'start' if c['ss'] == c['S'] else 'earlier-bar'))
    h.append('len:0' if not c['ev'] else 'len:<=1bar' if len(c['ev']) <= 4 * max(c['spq'], 1) else 'len:several-bars')
    return h


def run_cases(chk, stream, cases, do_oracle=True):
    reqs = [req_line(c) for (c, hist) in cases]
    impls = [run_impl(c) for (c, hist) in cases]
    models = chk.driver(EXE, reqs)
    for (c, hist), req, impl, model in zip(cases, reqs, impls, models):
        parts = model.split(' | ')
        if len(parts) != 4:
            chk.disagree(stream, c, ' | '.join(impl)[:600], model[:600])
            continue
        canon, mr, mq, mf = parts
        a, bq, f = impl
        if c['kind'] in ('roll', 'drums'):
            a, bq, mr, mq = canon_ns(a), canon_ns(bq), canon_ns(mr), canon_ns(mq)
        pc = py_canon(c)
        chk.count(stream, (req,), True, sorted(hist) + branches(c, f) + ['canonical:%s' % b(pc)])
        if (a, bq, f) != (mr, mq, mf):
            which = 'rendered' if a != mr else 'quantized' if bq != mq else 'extracted'
            chk.disagree(stream, dict(c, differs=which), (a if a != mr else bq if bq != mq else f)[:900],
                         (mr if a != mr else mq if bq != mq else mf)[:900])
        if pc is not None and canon != 'canon=' + b(pc):
            chk.disagree(stream, dict(c, differs='canonical-form predicate'), 'python reading: %s' % pc, canon)
        if do_oracle:
            r = oracle(c)
            chk.count('oracle', None, False, 'oracle:%s:%s' % (c['kind'], 'checked' if in_quantifier(c) else 'outside-quantifier'))
            if r and len(chk.failures) < 25:
                chk.fail('%s: %s' % (c['kind'], r), c)
    return reqs, impls, models


KINDS = ['drums', 'chords', 'roll', 'melody', 'lead']


def run(chk):
    _libs()
    generate(chk)
    modules, theorems, exes = list(MODULES), list(THEOREMS), [EXE]
    if c06_perf is not None:
        modules += [m for m in c06_perf.MODULES if m not in modules]
        theorems += list(c06_perf.THEOREMS)
        exes.append(c06_perf.EXE)
    perf_trusted = list(getattr(c06_perf, 'TRUSTED', [])) if c06_perf is not None else []
    chk.prove(modules, theorems, exes, extra_trusted=perf_trusted + [
        'rne53 as a model of IEEE-754 binary64 arithmetic (Rounding rne53 is a theorem; the identification with CPython floats '
        'is validated bit-exactly by the rendered-sequence comparison)',
        'C01 quantizer model and C07 extractor models (their own checks tie them to /repo)',
        'CPython set / frozenset iteration order is not modelled: notes that start together are compared as a set, and the '
        'DrumTrack / PianorollSequence theorems hold for every storage order of the rendered notes',
        'protobuf field defaults and float64 storage of times / qpm',
    ])
    chk.prove_bridge([BRIDGE], [(BRIDGE, t) for t in BRIDGE_THEOREMS])
    chk.rule = ('canonical event lists of Melody / DrumTrack / ChordProgression / LeadSheet / PianorollSequence (several bars; directly '
                'generated with forced boundary cases - silence one step short of gap_bars, trailing pianoroll silence, note cut by the next, '
                'pad_end after a NOTE_OFF - or returned by the real extractors on random quantized 4/4 sequences) x steps_per_quarter in '
                '{1,2,3,4,6,8,12,24} x qpm 20..300 incl. awkward doubles x bar-aligned start steps (0 .. 2^24 bars) x extraction parameters; '
                'separate non-canonical and malformed streams. non-trivial = distinct request answered by the model')
    if c06_perf is not None and getattr(c06_perf, 'RULE', ''):
        chk.rule += ' || performances: ' + c06_perf.RULE
    cases = []
    for name, obj in corpus_cases(PID):
        if str(obj.get('kind', '')).startswith('perf'):
            continue
        cases.append((obj, {'corpus:' + name}))
    if cases:
        run_cases(chk, 'corpus', cases)
    n = chk.n(700, 12000)
    for kind in KINDS:
        rng = chk.subrng('corr-' + kind)
        cases = []
        for i in range(n):
            hist = set()
            c = gen_extracted(rng, kind, hist) if rng.random() < 0.4 else None
            if c is None:
                hist = set()
                c = gen_direct(rng, kind, hist)
            cases.append((c, hist))
        reqs, impls, models = run_cases(chk, kind, cases)
        chk.sample({'request': reqs[0][:140] + ' …', 'extracted': impls[0][2][:140], 'model_equal': impls[0][2] == models[0].split(' | ')[-1]})
    for u in UNEXPECTED[:3]:
        chk.fail('the real %s extractor raised %s on a valid quantized sequence (no canonical form exists for it)'
                 % (u['what'], u['error']), u)
    del UNEXPECTED[:]
    rng = chk.subrng('noncanonical')
    cases = []
    for i in range(chk.n(500, 6000)):
        hist = set()
        c = spoil(rng, gen_direct(rng, rng.choice(KINDS), hist), hist)
        cases.append((c, hist))
    run_cases(chk, 'noncanonical', cases)
    rng = chk.subrng('malformed')
    cases = []
    for i in range(chk.n(200, 2000)):
        hist = set()
        cases.append((gen_malformed(rng, hist), hist))
    run_cases(chk, 'malformed', cases)
    if c06_perf is not None:
        c06_perf.run_streams(chk)


def replay(chk, obj):
    if str(obj.get('kind', '')).startswith('perf') and c06_perf is not None:
        return c06_perf.replay(chk, obj)
    _libs()
    if obj.get('kind') == 'extract-crash':
        r = replay_extract_crash(obj)
        print('PROPERTY FAILS: %s' % r if r else 'property holds on this input')
        return 1 if r else 0
    c = dict(obj)
    c.pop('differs', None)
    print('replay C06:', c['kind'], {k: v for k, v in c.items() if k not in ('ev', 'ch')}, '| %d events' % len(c['ev']))
    a, bq, f = run_impl(c)
    print('implementation: rendered %s…' % a[:120])
    print('implementation: extracted %s' % f[:400])
    print('canonical (property text):', py_canon(c), '| inside the quantifier:', in_quantifier(c))
    r = oracle(c)
    print('PROPERTY FAILS: %s' % r if r else 'property holds on this input')
    return 1 if r else 0
