"""Translator tie T2 for float code (gen/translit2.py): regenerate `Generated/<PID>T2.lean` from the functions of the
working tree.  A function the translator cannot handle any more leaves the previous file in place and is recorded as a
translator give-up ('translator:…' in chk.broken: not a violation by itself, harness/common.py finish())."""
from gen import translit2


def generate_t2(chk, pid, items, imports=('NoteSeqVerif.Common.Float',)):
    """items: list of dict(fn=, module=, name=, params=, paths=, guards=, export=).  -> {lean name: parameter list} or None"""
    defs, sigs = [], {}
    for it in items:
        try:
            for name, txt, ps in translit2.translate(it['fn'], it['module'], it['name'], it.get('params', {}),
                                                     it.get('paths'), it.get('guards', ()), it.get('export'),
                                                     rounding=it.get('rounding', True), nested=it.get('nested'),
                                                     vocab=it.get('vocab')):
                defs.append('/-- symbolic execution of `%s.%s`%s -/\n%s' % (
                    it['module'].__name__, it['fn'].__name__,
                    '' if not it.get('export') else ' up to the first statement outside the arithmetic fragment: local `%s`' % name.split('_', 1)[-1],
                    txt))
                sigs[name] = ps
        except translit2.Untranslatable as e:
            chk.translit['T2 ' + it['name']] = 'BROKEN: %s' % e
            if hasattr(chk, 'broken'):
                chk.broken.append('translator:%s T2 %s (%s)' % (pid, it['name'], str(e)[:200]))
            return None
        chk.translit['T2 ' + it['name']] = 'regenerated from source (symbolic execution, gen/translit2.py)'
    txt = ('%s\n/-! GENERATED from /repo on every run by harness/%s.py through gen/translit2.py — do not edit.\n'
           'Symbolic execution of the current Python source: `R` is applied after every float operation. -/\n'
           'namespace NSV.%s.Gen2\nopen NSV\nset_option linter.unusedVariables false\n\n%s\nend NSV.%s.Gen2\n'
           % ('\n'.join('import ' + i for i in imports), pid.lower(), pid, '\n'.join(defs), pid))
    chk.regenerate('NoteSeqVerif/Generated/%sT2.lean' % pid, txt)
    return sigs
