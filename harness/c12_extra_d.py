"""C12 part D — `concatenate_sequences` / `repeat_sequence_to_duration` under the property's own quantifier.

Theorems (Props/C12_concat.lean): the results do not depend on the storage order of any repeated field as soon as no
two time signatures / key signatures / tempos (for repetition also: chord symbols, preserved control changes of one
instrument and controller) share a time INSIDE each input — coincidences between different inputs (the ordinary
"state event at time 0 of every piece meets an event at the end of the previous piece") are allowed.  `…_pieces`:
any rounding operator, hypothesis on the pieces as the loop shifts them; `concat_perm` / `repeat_perm`: exact
arithmetic, hypothesis on the inputs.

`run_streams`: inputs built to make exactly those seam coincidences (dyadic times, so the float shifts are exact and
the hypothesis of `…_pieces` is the per-input condition), a state event at 0 and at the end of most pieces, values from
small pools so that `remove_redundant_data` has something to remove at the seams.  Every case goes through the real
code and the compiled model `drv_c13` on the stored order AND on a random permutation of every repeated field of every
input (model tie); whenever the theorem's hypothesis (evaluated here, independently, on the float times the loop
produces) holds, the implementation's two results must be equal as multisets — a difference there means model or
theorem statement do not describe the code.  A share of the cases has a tie inside one input: there the hypothesis is
false and the histogram shows that the real results do differ (the condition is not idle)."""
from harness import nswire

_M = 'NoteSeqVerif.Props.C12_concat'
EXTRA = [
    (_M, ['NSV.C12.concat_perm', 'NSV.C12.concat_perm_pieces', 'NSV.C12.concatPermFull_holds',
          'NSV.C12.concatPieces_perm', 'NSV.C12.repeat_perm', 'NSV.C12.repeat_perm_pieces',
          'NSV.C12.repeatPermFull_holds', 'NSV.C12.concat_input_ties_matter',
          # the lemmas the theorems rest on
          'NSV.C12.filter_class_sort', 'NSV.C12.sorted_eq_of_classes', 'NSV.C12.sortByRat_eq_of_classes',
          'NSV.C12.sortByRat_filter', 'NSV.C12.SameClasses.append', 'NSV.C12.catLoop_classes',
          'NSV.C12.concatPieces_exact', 'NSV.C12.finishCat_classes', 'NSV.C12.specPiece_perm_of_agree',
          'NSV.C12.extractSubsequence_perm_of_agree', 'NSV.C12.concat_sortAgree', 'NSV.C12.SortAgree.of_noTies'],
     'drv_c13'),
]

GRID = 0.125
PRESERVE = (64, 66, 67)


def seam_piece(rng, tie_inside):
    """a NoteSequence on the dyadic grid with total_time T; tempos / time signatures / key signatures / chord symbols /
    sustain-pedal events at pairwise distinct times per kind, mostly including 0 and T; `tie_inside`: additionally one
    kind gets two events at one time with a neighbour repeating one of the two values"""
    from note_seq.protobuf import music_pb2
    ns = music_pb2.NoteSequence()
    ns.ticks_per_quarter = 220
    steps = rng.choice([4, 8, 8, 16])
    T = steps * GRID
    for _ in range(rng.choice([0, 1, 2, 4])):
        a = rng.randrange(0, steps)
        b = rng.randrange(a + 1, steps + 1)
        n = ns.notes.add()
        n.pitch, n.velocity, n.start_time, n.end_time = rng.choice([60, 62, 64, 36]), rng.choice([100, 64]), a * GRID, b * GRID
        n.instrument = rng.randrange(2)

    def times():
        k = rng.choice([0, 1, 2, 2, 3])
        pool = [0, steps] if rng.random() < 0.8 else []
        pool += [rng.randrange(0, steps + 1) for _ in range(3)]
        if rng.random() < 0.1:
            pool.append(steps + rng.choice([1, 2, steps]))       # an event beyond total_time: copies overlap
        out = []
        for x in pool:
            if x not in out:
                out.append(x)
        out = out[:k]
        rng.shuffle(out)
        return [x * GRID for x in out]

    for t in times():
        x = ns.tempos.add(); x.time, x.qpm = t, rng.choice([120.0, 120.0, 90.0])
    for t in times():
        x = ns.time_signatures.add(); x.time = t; x.numerator, x.denominator = rng.choice([(4, 4), (4, 4), (3, 4)])
    for t in times():
        x = ns.key_signatures.add(); x.time, x.key = t, rng.choice([0, 0, 7])
    for t in times():
        x = ns.text_annotations.add(); x.time, x.text, x.annotation_type = t, rng.choice(['C', 'C', 'G7']), 1
    for ctl in (64, rng.choice([66, 67, 1])):
        for inst in (0, 1):
            if rng.random() < 0.5:
                for t in times():
                    x = ns.control_changes.add()
                    x.time, x.control_number, x.control_value, x.instrument = t, ctl, rng.choice([0, 127, 127]), inst
    if tie_inside:
        kind = rng.choice(['tempos', 'time_signatures', 'key_signatures'])
        t0 = rng.randrange(1, steps + 1) * GRID
        del getattr(ns, kind)[:]
        vals = {'tempos': [120.0, 60.0, 120.0], 'time_signatures': [(4, 4), (3, 4), (4, 4)], 'key_signatures': [0, 7, 0]}[kind]
        for t, v in zip((0.0, t0, t0), vals):
            x = getattr(ns, kind).add()
            x.time = t
            if kind == 'tempos':
                x.qpm = v
            elif kind == 'time_signatures':
                x.numerator, x.denominator = v
            else:
                x.key = v
    ns.total_time = T
    if rng.random() < 0.3:
        ns.sequence_metadata.composers.append(rng.choice(['a', 'b']))
    return ns


def kinds_of(ns, with_extraction):
    """per kind of the hypothesis: the list of (class key, time)"""
    out = {'tempos': [((), x.time) for x in ns.tempos],
           'time_signatures': [((), x.time) for x in ns.time_signatures],
           'key_signatures': [((), x.time) for x in ns.key_signatures]}
    if with_extraction:
        out['chords'] = [((), x.time) for x in ns.text_annotations if x.annotation_type == 1]
        out['pedals'] = [((x.instrument, x.control_number), x.time) for x in ns.control_changes
                         if x.control_number in PRESERVE]
    return out


def pieces_hyp(seqs, durs, with_extraction):
    """`ConcatPieces` read from its definition: walk the loop's offsets in float arithmetic (cur += duration, or
    cur = total_time of the merged sequence so far), shift every time as the code does (`time += offset` when the offset
    is positive) and ask each shifted piece for pairwise distinct times per class.  Returns (hypothesis, number of
    coincidences between DIFFERENT pieces)."""
    cur, ok, seen, cross = 0.0, True, {}, 0
    total = 0.0
    for i, s in enumerate(seqs):
        if durs and durs[i] < s.total_time:
            break                                                   # the code raises here; nothing asked afterwards
        for kind, evs in kinds_of(s, with_extraction).items():
            shifted = [(k, t + cur if cur > 0 else t) for k, t in evs]
            if len(set(shifted)) != len(shifted):
                ok = False
            for e in set(shifted):
                if (kind, e) in seen:
                    cross += 1
                seen[(kind, e)] = True
        tt = s.total_time + cur if cur > 0 else s.total_time
        if tt != 0:
            total = tt                                               # MergeFrom: a non-default scalar overwrites
        cur = cur + durs[i] if durs else total
    return ok, cross


def canon(r):
    """multiset view of a result (or the exception name)"""
    from harness import c13
    if isinstance(r, str):
        return r
    t = nswire.encode(r).split(' ')
    out, p = t[:10], 10
    out[9] = c13.digest(c13.strip_meta(r))
    for width in (14, 2, 3, 3, 4, 7, 5, 2):
        n = int(t[p]); p += 1
        rows = sorted(tuple(t[p + j * width: p + (j + 1) * width]) for j in range(n))
        p += n * width
        out.append((n, tuple(rows)))
    out.append(tuple(t[p:]))
    out.append((tuple(r.sequence_metadata.composers), tuple(r.sequence_metadata.genre)))
    return tuple(out)


def _call(f, *a):
    try:
        return f(*a)
    except Exception as e:  # pylint: disable=broad-except
        return 'err ' + type(e).__name__


def run_streams(chk):
    import math
    from note_seq import sequences_lib as sl
    from harness import c13
    rng = chk.subrng('extra_d:seams')
    rows = []                                                        # (stream, request, impl line, hist)
    for i in range(chk.n(300, 4000)):
        tie_inside = rng.random() < 0.15
        if i % 3:
            # ---- concatenation
            n = rng.choice([2, 2, 3, 4])
            seqs = [seam_piece(rng, tie_inside and j == 0) for j in range(n)]
            if rng.random() < 0.3:
                seqs[rng.randrange(1, n)] = c13.clone(seqs[0])
            k = rng.random()
            durs = None if k < 0.5 else [s.total_time + rng.choice([0.0, 0.0, GRID, 1.0]) for s in seqs]
            perm = [nswire.shuffled(s, rng) for s in seqs]
            a, b = _call(sl.concatenate_sequences, seqs, durs), _call(sl.concatenate_sequences, perm, durs)
            hyp, cross = pieces_hyp(seqs, durs, False)
            op, stream = 'concat', 'theorem:concat'
            inp = {'op': 'concat', 'seqs': [c13.to_hex(s) for s in seqs], 'permuted': [c13.to_hex(s) for s in perm], 'durs': durs}
            cases = [dict(inp, seqs=[c13.to_hex(s) for s in ss]) for ss in (seqs, perm)]
        else:
            # ---- repetition
            s = seam_piece(rng, tie_inside)
            sd = None if rng.random() < 0.5 else s.total_time + rng.choice([0.0, GRID, 1.0])
            d = sd if sd else s.total_time
            D = rng.choice([d * 2, d * 3, d * 2.5, d * 1.5, d * 3 - GRID, d + GRID])
            p = nswire.shuffled(s, rng)
            a, b = _call(sl.repeat_sequence_to_duration, s, D, sd), _call(sl.repeat_sequence_to_duration, p, D, sd)
            n = max(0, int(math.ceil(D / d))) if d else 0
            hyp, cross = pieces_hyp([s] * n, [d] * n, True)
            op, stream = 'repeat', 'theorem:repeat'
            inp = {'op': 'repcat', 'seqs': [c13.to_hex(s)], 'permuted': [c13.to_hex(p)], 'D': D, 'sd': sd}
            cases = [dict(inp, seqs=[c13.to_hex(x)]) for x in (s, p)]
        same = canon(a) == canon(b)
        ok = not isinstance(a, str)
        chk.count(stream, (op, i), ok and hyp and cross > 0,
                  ['hyp:%s,impl-order-independent:%s' % (hyp, same),
                   'coincidences-between-pieces:%s' % ('none' if cross == 0 else '1-2' if cross < 3 else '3+'),
                   'result:' + ('ok' if ok else a)])
        if hyp and not same:
            chk.disagree(stream, inp, repr(canon(a))[:800], repr(canon(b))[:800])
        if i < 2:
            chk.sample({'seam_case': {k: (v if k in ('op', 'durs', 'D', 'sd') else '…') for k, v in inp.items()},
                        'hypothesis': hyp, 'coincidences_between_pieces': cross})
        for tag, case in zip(('stored', 'permuted'), cases):
            for req, impl in c13.request(sl, case):
                rows.append(('model:seam-' + req.split(' ', 1)[0], req, impl, [tag, 'result:' + impl.split(' ')[0]]))
    out = chk.driver('drv_c13', [r[1] for r in rows])
    for (stream, req, impl, hist), model in zip(rows, out):
        chk.count(stream, req[:3000], model != 'bad-op', hist)
        if impl != model:
            chk.disagree(stream, req[:3000], impl[:600], model[:600])
