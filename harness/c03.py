"""C03 — NoteSequence -> MIDI -> NoteSequence preserves the music (DESIGN 6.3).

Proved (Lean): grouping / tempo-loop order / key encoding / tick arithmetic of note-seq's own code.
Correspondence (bit-exact, rne53): tick map vs pretty_midi, writer model vs the PrettyMIDI object the real
writer builds, reader model vs midi_to_note_sequence on PrettyMIDI objects.
MONITORED ONLY (sampling across third-party code, labelled so in the evidence): the byte-level round trip
PrettyMIDI.write -> mido -> PrettyMIDI(file), compared with the composed model's prediction and judged by
an independent oracle that evaluates the round-trip statement in exact Fraction arithmetic.  The monitor includes a few
VERY LONG sequences (corpus long-*.json + stream `verylong`: last tick around / beyond 10^7, pretty_midi's default loader
limit that midi_io raises at import); the limit in force is regenerated into Generated/C03.lean (`MAX_TICK`), the composed
model's tick guard uses it and `midi_reader_accepts_long_files` is proved from it.
"""
import ast
import inspect
import io
import json
import math
import textwrap
import warnings
from fractions import Fraction as F

from harness import nswire
from harness.common import rat, wl, corpus_cases, lean_str, lean_list

PID = 'C03'
PROPS = 'NoteSeqVerif.Props.C03'
FLT = 'NoteSeqVerif.Props.C03_float'       # the floating-point side of the tick / tempo arithmetic (every `Rounding R`)
MODULES = [FLT, PROPS]
EXE = 'drv_c03'
THEOREMS = [(PROPS, 'NSV.C03.' + n) for n in (
    'source_shape', 'midi_reader_accepts_long_files',
    'midi_groups_partition', 'midi_groups_written', 'midi_groups_roundtrip',
    'midi_tempo_map_order_independent', 'midi_write_order_independent',
    'midi_tempo_map_sorted',
    'midi_key_roundtrip', 'midi_key_other_modes_major',
    'midi_tick_roundtrip', 'midi_time_to_tick_mono', 'midi_tick_grid_fixed',
    'midi_note_keeps_length',
    'midi_tempo_quantisation', 'midi_write_ok',
    # drop_events_n_seconds_after_last_note: cut-off = end of the note that ends last + n, nothing else (not total_time)
    'maxEnd_ge', 'maxEnd_mem', 'midi_drop_cutoff_from_notes_only', 'midi_write_ignores_total_time', 'midi_drop_none',
    'midi_drop_exact', 'midi_drop_float', 'midi_drop_keeps_events_within_notes',
)] + [(FLT, 'NSV.C03.' + n) for n in (
    # monotonicity in floats
    'midi_tick_to_time_mono_float', 'midi_time_to_tick_mono_float', 'midi_note_order_kept_float',
    # round trip under one tempo, grid times
    'midi_tick_roundtrip_float', 'midi_tick_grid_fixed_float', 'midi_tick_roundtrip_idempotent_float',
    # round trip / grid times on a general piecewise map (any number of tempo segments)
    'midi_tick_roundtrip_float_general', 'midi_tick_grid_fixed_float_inside', 'midi_tick_grid_fixed_float_beyond',
    # the microsecond tempo write stores: exact / exact-or-one-less / kernel-checked losses (mechanism of F-C03-3)
    'midi_tempo_exact_float', 'midi_tempo_quantisation_float', 'midi_tempo_truncated_witness',
    # what a truncated tempo does to later times (exact arithmetic)
    'midi_drift_of_scaled_map', 'midi_drift_of_truncated_tempo',
)]

warnings.filterwarnings('ignore')


# ----------------------------------------------------------------------------- generate
def _ast_facts(midi_io):
    """structural facts of the writer / reader read off the AST; None where the shape is not recognised."""
    facts = {'tempo_sorted': None, 'key_fields': None, 'group_sorted': None, 'key_mod': None}
    try:
        w = ast.parse(textwrap.dedent(inspect.getsource(midi_io.note_sequence_to_pretty_midi)))
        keysets = []
        for node in ast.walk(w):
            if isinstance(node, ast.For):
                it = node.iter
                tgt = ast.unparse(node.target)
                if tgt == 'seq_tempo' and 'tick_scale' in ast.unparse(node):
                    if isinstance(it, ast.Call) and ast.unparse(it.func) == 'sorted' and ast.unparse(it.args[0]) == 'sequence.tempos' \
                            and len(it.keywords) == 1 and it.keywords[0].arg == 'key' and ast.unparse(it.keywords[0].value).endswith('.time'):
                        facts['tempo_sorted'] = True
                    elif ast.unparse(it) == 'sequence.tempos':
                        facts['tempo_sorted'] = False
                if 'instr_id' in tgt:
                    src = ast.unparse(it)
                    if src in ('sorted(instrument_events.keys())', 'sorted(instrument_events)'):
                        facts['group_sorted'] = True
                    elif src in ('instrument_events.keys()', 'instrument_events'):
                        facts['group_sorted'] = False
            if isinstance(node, ast.Subscript) and ast.unparse(node.value) == 'instrument_events' and isinstance(node.slice, ast.Tuple):
                elts = node.slice.elts
                if all(isinstance(e, ast.Attribute) and isinstance(e.value, ast.Name) and e.value.id.startswith('seq_') for e in elts):
                    keysets.append(tuple(e.attr for e in elts))
        if len(keysets) == 3 and len(set(keysets)) == 1:
            facts['key_fields'] = list(keysets[0])
        r = ast.parse(textwrap.dedent(inspect.getsource(midi_io.midi_to_note_sequence)))
        mods = set()
        for node in ast.walk(r):
            if isinstance(node, ast.BinOp) and isinstance(node.op, (ast.Mod, ast.FloorDiv)) and \
                    ast.unparse(node.left) == 'midi_key.key_number' and isinstance(node.right, ast.Constant):
                mods.add((type(node.op).__name__, node.right.value))
        if len(mods) == 2 and len({v for _, v in mods}) == 1:
            facts['key_mod'] = mods.pop()[1]
    except Exception:  # pylint: disable=broad-except
        pass
    return facts


def generate(chk):
    from note_seq import midi_io, constants
    from note_seq.protobuf import music_pb2
    facts = _ast_facts(midi_io)
    defaults = {'tempo_sorted': True, 'key_fields': ['instrument', 'program', 'is_drum'], 'group_sorted': True, 'key_mod': 12}
    broken = [k for k, v in facts.items() if v is None]
    chk.translit['writer/reader AST facts'] = ('regenerated from source: %s' % json.dumps(facts)) if not broken else \
        'shape not recognised for %s (defaults used; the correspondence still ties the model)' % broken
    for k in broken:
        facts[k] = defaults[k]
    KS = music_pb2.NoteSequence.KeySignature
    # pretty_midi's loader limit as it stands once note_seq.midi_io has been imported (midi_io overrides it at import)
    import pretty_midi
    mt = pretty_midi.pretty_midi.MAX_TICK
    try:
        max_tick = 10 ** 30 if mt == float('inf') else math.floor(mt)
    except (TypeError, ValueError, OverflowError):
        max_tick = 0
        chk.broken.append('translator:C03 (pretty_midi.pretty_midi.MAX_TICK = %r is not a number)' % (mt,))
    chk.translit['pretty_midi.MAX_TICK after import of midi_io'] = repr(mt)
    b = lambda x: 'true' if x else 'false'
    txt = ('/-! GENERATED from /repo on every run by harness/c03.py — do not edit. -/\n'
           'namespace NSV.C03.Gen\n'
           '/-- `midi_io._PRETTY_MIDI_MAJOR_TO_MINOR_OFFSET` -/\n'
           'def MAJOR_TO_MINOR_OFFSET : Int := %d\n' % midi_io._PRETTY_MIDI_MAJOR_TO_MINOR_OFFSET
           + '/-- `constants.STANDARD_PPQ` -/\n'
           'def STANDARD_PPQ : Int := %d\n' % constants.STANDARD_PPQ
           + '/-- `constants.DEFAULT_QUARTERS_PER_MINUTE` -/\n'
           'def DEFAULT_QPM : Rat := %s\n' % ('(%s : Rat)' % F(constants.DEFAULT_QUARTERS_PER_MINUTE)).replace('/', ' / ')
           + '/-- `NoteSequence.KeySignature.MAJOR` / `.MINOR` -/\n'
           'def MODE_MAJOR : Int := %d\ndef MODE_MINOR : Int := %d\n' % (KS.MAJOR, KS.MINOR)
           + '/-- AST of note_sequence_to_pretty_midi: the tempo loop iterates `sorted(sequence.tempos, key=<time>)` -/\n'
           'def TEMPO_LOOP_SORTED : Bool := %s\n' % b(facts['tempo_sorted'])
           + '/-- AST: the three grouping loops index `instrument_events` by these attributes, in this order -/\n'
           'def GROUP_KEY_FIELDS : List String := %s\n' % lean_list(lean_str(f) for f in facts['key_fields'])
           + '/-- AST: the instrument loop iterates `sorted(instrument_events.keys())` -/\n'
           'def GROUP_LOOP_SORTED : Bool := %s\n' % b(facts['group_sorted'])
           + '/-- AST of midi_to_note_sequence: `key_number %% K` and `key_number // K` -/\n'
           'def KEY_DECODE_MODULUS : Int := %d\n' % facts['key_mod']
           + '/-- `pretty_midi.pretty_midi.MAX_TICK` in force after `import note_seq.midi_io` (floor): the loader refuses a\n'
           'file whose largest tick + 1 exceeds it -/\n'
           'def MAX_TICK : Int := %d\n' % max_tick
           + 'end NSV.C03.Gen\n')
    chk.regenerate('NoteSeqVerif/Generated/C03.lean', txt)


# ----------------------------------------------------------------------------- wire helpers
def nx(x, n):
    return nswire.nextafter_n(x, n)


def scales_wire(scales):
    return wl('%d %s' % (int(s), rat(c)) for s, c in scales)


def pm_line(pm):
    """canonical wire form of the PrettyMIDI object the writer built (mirrors Model/C03 `showPM`)."""
    insts = []
    for i in pm.instruments:
        insts.append('%d %s %s %s %s' % (
            i.program, '1' if i.is_drum else '0',
            wl('%d %d %s %s' % (n.velocity, n.pitch, rat(n.start), rat(n.end)) for n in i.notes),
            wl('%d %s' % (b.pitch, rat(b.time)) for b in i.pitch_bends),
            wl('%d %d %s' % (c.number, c.value, rat(c.time)) for c in i.control_changes)))
    return ' '.join(['PM', str(pm.resolution), scales_wire(pm._tick_scales),  # pylint: disable=protected-access
                     wl('%d %d %s' % (t.numerator, t.denominator, rat(t.time)) for t in pm.time_signature_changes),
                     wl('%d %s' % (k.key_number, rat(k.time)) for k in pm.key_signature_changes),
                     wl(insts)])


def blank_meta(line):
    t = line.split(' ')
    if len(t) > 10 and t[0] in ('ok',) and t[1] == 'NS':
        t[10] = '-'
    return ' '.join(t)


def write_result(midi_io, ns, drop):
    try:
        pm = midi_io.note_sequence_to_pretty_midi(ns, drop)
    except Exception as e:  # pylint: disable=broad-except
        return None, 'err ' + type(e).__name__
    return pm, 'ok ' + pm_line(pm)


def read_result(midi_io, pm):
    try:
        r = midi_io.midi_to_note_sequence(pm)
    except Exception as e:  # pylint: disable=broad-except
        return None, 'err ' + type(e).__name__
    return r, blank_meta('ok ' + nswire.encode(r))


# ----------------------------------------------------------------------------- generators
def us_tempo(rng, family=None):
    """a microsecond-representable tempo (qpm = 6e7 / integer microseconds per quarter), 40..300 qpm; with `family` half of
    them from the ends of the storable range: 'slow' = 3.58 qpm (16777215 us, the largest 3-byte value), 'fast' = 1000..3000 qpm.
    (One family per sequence: a slow and a fast tempo in one map make a few seconds tens of millions of ticks.)"""
    us = rng.choice([500000, 250000, 1000000, 600000, rng.randint(200000, 1500000), rng.randint(200000, 1500000)])
    if family and rng.random() < 0.5:
        us = rng.choice([16777215, 16777214, 8388608] if family == 'slow' else [20000, 60000])
    return 6e7 / us


class TempoMap:
    """the tempo map a NoteSequence denotes (exact arithmetic): implicit 120 qpm before the first tempo."""

    def __init__(self, tpq, tempos, default_qpm=120.0):
        self.tpq = tpq
        evs = sorted(tempos)
        segs = []
        if not evs or evs[0][0] > 0:
            segs.append((F(0), F(default_qpm)))
        for t, q in evs:
            segs.append((F(t), F(q)))
        self.segs = segs                                   # (start time, qpm)
        self.cs = [F(60) / (q * tpq) for _, q in segs]      # seconds per tick
        self.cmax = max(self.cs)
        # tick position (real number) of each segment start
        pos, x = [], F(0)
        for i, (t, _) in enumerate(segs):
            if i:
                x += (t - segs[i - 1][0]) / self.cs[i - 1]
            pos.append(x)
        self.pos = pos

    def time_of(self, x):
        """time of the real-valued tick position x"""
        i = max(j for j, p in enumerate(self.pos) if p <= x or j == 0)
        return self.segs[i][0] + (x - self.pos[i]) * self.cs[i]

    def tick_of(self, t):
        i = max(j for j, s in enumerate(self.segs) if s[0] <= t or j == 0)
        return self.pos[i] + (F(t) - self.segs[i][0]) / self.cs[i]

    def qpm_at(self, t):
        return [q for s, q in self.segs if s <= t][-1]

    def local_tick(self, t0, t1=None):
        """longest tick among the tempos in force within one (longest) tick of [t0, t1]"""
        t1 = t0 if t1 is None else t1
        lo, hi = F(t0) - self.cmax, F(t1) + self.cmax
        out = []
        for i, (s, _) in enumerate(self.segs):
            e = self.segs[i + 1][0] if i + 1 < len(self.segs) else None
            if (e is None or e >= lo) and s <= hi:
                out.append(self.cs[i])
        return max(out)

    def change_times(self):
        return [s for s, _ in self.segs if s > 0]


def gen_valid(rng, long_times=False):
    """a MIDI-representable NoteSequence per the quantifier of C03.  Returns (ns, hist)."""
    from note_seq.protobuf import music_pb2
    hist = set()
    ns = music_pb2.NoteSequence()
    tpq = rng.choice([24, 96, 220, 480, 960, rng.randrange(24, 961)])
    if rng.random() < 0.1:
        ns.ticks_per_quarter = 0
        tpq = 220
        hist.add('tpq:unset')
    else:
        ns.ticks_per_quarter = tpq
        hist.add('tpq:%s' % ('<100' if tpq < 100 else '<500' if tpq < 500 else '>=500'))
    span = rng.choice([1.0, 4.0, 8.0]) if not long_times else rng.choice([60.0, 200.0, 400.0])
    # tempo map: distinct times, microsecond-representable, stored in random order
    tempos = []
    family = rng.choice(['slow', 'fast']) if rng.random() < 0.04 and not long_times else None
    if family:
        hist.add('tempo:range-end-' + family)
    k = rng.random()
    if k < 0.12:
        hist.add('tempo:none')
    else:
        n = rng.choice([1, 1, 2, 3, 4])
        times = set()
        if rng.random() < 0.75:
            times.add(0.0)
        else:
            hist.add('tempo:first-after-zero')
        while len(times) < n:
            if times and rng.random() < 0.15:
                # a second change within the same (or the next) tick: distinct times, same written tick
                times.add(max(times) + rng.choice([1e-6, 1e-4, 60.0 / (120 * tpq) / 3]))
                hist.add('tempo:two-changes-within-a-tick')
            else:
                times.add(rng.choice([0.5, 1.0, 2.25, round(rng.uniform(0.01, span), 3), rng.uniform(0.01, span)]))
        for t in sorted(times):
            tempos.append((t, us_tempo(rng, family)))
        hist.add('tempo:%d' % n)
    stored = list(tempos)
    rng.shuffle(stored)
    if stored != sorted(stored) and len(stored) > 1:
        hist.add('tempo:stored-unsorted')
    for t, q in stored:
        x = ns.tempos.add()
        x.time, x.qpm = t, q
    tm = TempoMap(tpq, tempos)
    # groups: several programs per instrument number, incl. instrument 0 and drums
    groups = []
    many = rng.random() < 0.04          # more instruments than MIDI channels (pretty_midi reuses channels per track)
    ninst = rng.choice([1, 2, 3, 4]) if not many else 18
    first_inst = rng.choice([0, 0, 0, 1, 2, 100])
    if many:
        hist.add('groups:more-than-16')
    for inst in range(first_inst, first_inst + ninst):
        for _ in range(rng.choice([1, 1, 2, 3]) if not many else 1):
            g = (inst, rng.choice([0, 0, 5, 40, 127, rng.randrange(128)]), rng.random() < 0.2)
            if g not in groups:
                groups.append(g)
    if sum(1 for g in groups if g[0] == 0) > 1:
        hist.add('groups:instrument0-multi')
    if any(g[2] for g in groups):
        hist.add('groups:drums')
    if len({g[0] for g in groups}) < len(groups):
        hist.add('groups:several-programs-per-instrument')
    if len({(g[1], g[2]) for g in groups}) < len(groups):
        hist.add('groups:same-program-on-two-instruments')
    # notes: generated in tick space (boundaries: on a tick, half-way between ticks +- ulps, exactly two ticks long)
    nnotes = (rng.choice([1, 2, 4, 8, 16]) if not many else 40) if rng.random() < 0.97 else 0
    if nnotes == 0:
        hist.add('notes:none')
    occ = {}
    per_instrument = rng.random() < 0.7      # no-overlap scope: instrument number (else written group)
    max_x = tm.tick_of(F(span))
    for _ in range(nnotes * 3):
        if len(ns.notes) >= nnotes:
            break
        g = rng.choice(groups)
        pitch = rng.choice([60, 60, 62, 36, 0, 127, rng.randrange(128)])
        okey = ((g[0],) if per_instrument else g) + (pitch,)
        k = rng.random()
        prev = occ.get(okey)
        if prev and k < 0.3:
            a = prev[-1][1]                  # touching: starts exactly where the previous one ends
            hist.add('note:touching')
        else:
            x = F(rng.randrange(0, max(1, int(max_x))))
            kk = rng.random()
            if kk < 0.1 and len(tm.pos) > 1:
                x = rng.choice(tm.pos[1:])      # starts exactly at a tempo change
                kk = 0.0
                hist.add('note:at-tempo-change')
            if kk < 0.3:
                hist.add('note:on-tick')
            elif kk < 0.6:
                x += F(1, 2)
                hist.add('note:half-tick')
            else:
                x += F(rng.random())
            a = float(tm.time_of(x))
            if 0.3 <= kk < 0.6:
                a = max(0.0, nx(a, rng.randrange(-2, 3)))
        kk = rng.random()
        ell = F(2) if kk < 0.35 else F(5, 2) if kk < 0.45 else F(rng.uniform(2, 40)) if kk < 0.8 else F(rng.uniform(2, 2000))
        if kk < 0.35:
            hist.add('note:two-ticks')
        if family and ell * tm.local_tick(F(a), F(a)) > 20:      # range-end tempos: keep the sequence within ~10^6 ticks
            ell = max(F(2), F(20) / tm.local_tick(F(a), F(a)))
        b = float(F(a) + ell * tm.local_tick(F(a), F(a)))
        # at least two ticks long, judged by the longest tick in force around the note
        for _ in range(4):
            if F(b) - F(a) < 2 * tm.local_tick(F(a), F(b)):
                b = float(F(a) + 2 * tm.local_tick(F(a), F(b)))
        while F(b) - F(a) < 2 * tm.local_tick(F(a), F(b)):
            b = nx(b, 1)
        if any(not (b <= c or d <= a) for c, d in occ.get(okey, [])):
            continue
        occ.setdefault(okey, []).append((a, b))
        occ[okey].sort()
        n = ns.notes.add()
        n.instrument, n.program, n.is_drum = g
        n.pitch, n.velocity = pitch, rng.choice([1, 127, 100, rng.randrange(1, 128)])
        n.start_time, n.end_time = a, b
    if len(ns.notes) and not many and rng.random() < 0.25:
        # unison: the very same note (pitch, velocity, start, end) on ANOTHER instrument number with the same program and
        # drum flag (two violin tracks doubling each other) - and sometimes with another program; a reader or writer that
        # identifies notes by value without the instrument number loses one of them (seed C03-18)
        for _ in range(rng.choice([1, 2, 3])):
            src = rng.choice(list(ns.notes))
            same = rng.random() < 0.75
            cands = [g for g in groups if g[0] != src.instrument and ((g[1], g[2]) == (src.program, src.is_drum)) == same]
            if cands:
                g = rng.choice(cands)
            else:
                g = (max(x[0] for x in groups) + 1, src.program if same else (src.program + 1) % 128, src.is_drum)
                groups.append(g)
            okey = ((g[0],) if per_instrument else g) + (src.pitch,)
            if any(not (src.end_time <= c or d <= src.start_time) for c, d in occ.get(okey, [])):
                continue
            occ.setdefault(okey, []).append((src.start_time, src.end_time))
            occ[okey].sort()
            n = ns.notes.add()
            n.CopyFrom(src)
            n.instrument, n.program, n.is_drum = g
            hist.add('note:unison-same-program' if same else 'note:unison-other-program')
    noted = sorted({(n.instrument, n.program, n.is_drum) for n in ns.notes})
    end = max([n.end_time for n in ns.notes] + [0.0])
    ns.total_time = end
    # total_time is optional metadata: nothing the round trip returns may depend on it (unset / stale / too large)
    k = rng.random()
    if k < 0.12:
        ns.total_time = 0.0
        hist.add('total_time:unset')
    elif k < 0.20 and end > 0:
        ns.total_time = end * rng.choice([0.25, 0.5])
        hist.add('total_time:stale-smaller-than-last-note-end')
    elif k < 0.28:
        ns.total_time = end + rng.choice([0.5, 3.0])
        hist.add('total_time:larger-than-last-note-end')
    pool = [n.start_time for n in ns.notes] + [n.end_time for n in ns.notes] + [0.0]

    def ev_time():
        k = rng.random()
        if k < 0.4:
            return rng.choice(pool)
        if k < 0.9:
            return rng.uniform(0, end + 0.5)
        return end + rng.uniform(0, 2.0)
    for g in noted:
        for _ in range(rng.choice([0, 0, 1, 2, 5])):
            c = ns.control_changes.add()
            c.instrument, c.program, c.is_drum = g
            c.time = ev_time()
            c.control_number = rng.choice([64, 64, 7, 1, rng.randrange(128)])
            c.control_value = rng.choice([0, 127, 64, rng.randrange(128)])
            hist.add('cc')
        for _ in range(rng.choice([0, 0, 0, 1, 3])):
            p = ns.pitch_bends.add()
            p.instrument, p.program, p.is_drum = g
            p.time = ev_time()
            p.bend = rng.choice([-8192, 8191, 0, rng.randrange(-8192, 8192)])
            hist.add('bend')
    # time / key signatures at distinct, well separated times (some coincide with note times)
    def sig_times(n):
        out = []
        for _ in range(n * 4):
            if len(out) >= n:
                break
            t = rng.choice([0.0, 0.0, rng.choice(pool), rng.uniform(0, end + 0.5), rng.choice([x for x, _ in tempos] or [0.0])])
            if all(abs(F(t) - F(u)) > 3 * tm.cmax for u in out):
                out.append(t)
        rng.shuffle(out)
        return out
    for t in sig_times(rng.choice([0, 1, 1, 2, 3])):
        x = ns.time_signatures.add()
        x.time, x.numerator, x.denominator = (t, rng.choice([4, 3, 6, 12, 1, 255, rng.randrange(1, 33), rng.randrange(1, 256)]),
                                              rng.choice([1, 2, 4, 4, 8, 16, 32, 2 ** 30, 2 ** rng.randrange(0, 31)]))
        if x.denominator > 32:
            hist.add('tsig:denominator>32')
        hist.add('tsig')
    if ns.time_signatures and min(x.time for x in ns.time_signatures) > 0:
        hist.add('tsig:first-after-zero')
    for t in sig_times(rng.choice([0, 0, 1, 2])):
        x = ns.key_signatures.add()
        x.time, x.key, x.mode = t, rng.randrange(12), rng.choice([0, 1])
        hist.add('ksig:minor' if x.mode else 'ksig:major')
    if rng.random() < 0.3 and noted:
        ii = ns.instrument_infos.add()
        ii.instrument, ii.name = rng.choice(noted)[0], 'lead'
    return ns, hist


def log2_inexact(d):
    """mido encodes a time-signature denominator with math.log(d, 2); for some powers of two that float is not integral
    (2^29 is the only one that fits the int32 field) and the write raises - open known finding F-C03-4 (third party)."""
    return d > 0 and d & (d - 1) == 0 and not math.log(d, 2).is_integer()


def gen_extremes():
    """first and last legal value of every field of the quantifier, one small sequence each (always run)."""
    from note_seq.protobuf import music_pb2
    out = []

    def base(tpq=480, pitch=60, vel=100, prog=0, drum=False, inst=0):
        ns = music_pb2.NoteSequence()
        ns.ticks_per_quarter = tpq
        n = ns.notes.add()
        n.pitch, n.velocity, n.program, n.is_drum, n.instrument = pitch, vel, prog, drum, inst
        n.start_time, n.end_time = 0.0, 0.5
        ns.total_time = 0.5
        return ns
    out.append((music_pb2.NoteSequence(), 'empty sequence'))
    e = music_pb2.NoteSequence()
    e.tempos.add(time=0.0, qpm=90.0)
    e.time_signatures.add(time=0.0, numerator=3, denominator=4)
    out.append((e, 'no notes, tempo and time signature only'))
    for tpq in (24, 960):
        for pitch, vel, prog in ((0, 1, 0), (127, 127, 127), (0, 127, 127), (127, 1, 0)):
            for drum in (False, True):
                ns = base(tpq, pitch, vel, prog, drum)
                for bend in (-8192, 8191, 0):
                    ns.pitch_bends.add(time=0.25, bend=bend, program=prog, is_drum=drum)
                for num, val in ((0, 0), (127, 127), (0, 127), (127, 0)):
                    ns.control_changes.add(time=0.25, control_number=num, control_value=val, program=prog, is_drum=drum)
                out.append((ns, 'pitch/velocity/program/bend/control at both ends of their ranges'))
    for den in [2 ** k for k in range(0, 31)]:
        for num in (1, 255):
            ns = base()
            ns.time_signatures.add(time=0.0, numerator=num, denominator=den)
            out.append((ns, 'time signature numerator 1 / 255, denominator 2^0 … 2^30'))
    for key in range(12):
        for mode in (0, 1):
            ns = base()
            ns.key_signatures.add(time=0.0, key=key, mode=mode)
            out.append((ns, 'all 24 keys'))
    for us in (16777215, 1000000, 20000):
        for tpq in (24, 960):
            ns = base(tpq)
            ns.tempos.add(time=0.0, qpm=6e7 / us)
            c = 60.0 / (6e7 / us * tpq)
            ns.notes[0].end_time = 2 * c                      # exactly two ticks long
            n = ns.notes.add()
            n.pitch, n.velocity, n.start_time, n.end_time = 60, 1, 2 * c, 5 * c      # touching
            ns.total_time = 5 * c
            out.append((ns, 'slowest / fastest tempo, note exactly two ticks long, touching notes'))
    for inst in (0, 1, 15, 16, 2 ** 31 - 1):
        out.append((base(inst=inst), 'instrument number 0 … 2^31-1'))
    return out


def event_times(ns):
    return [e.time for f in (ns.control_changes, ns.pitch_bends, ns.time_signatures, ns.key_signatures, ns.tempos) for e in f]


def pick_drop(rng, ns, hist, p=0.4):
    """a value of drop_events_n_seconds_after_last_note for a valid sequence (None = parameter not given).  Half of the
    values put the cut-off last_note_end + drop exactly on an event that lies after the last note, or 1 ulp to either side
    of it; the rest are round values incl. 0.0 (cut-off = end of the last note)."""
    if not ns.notes or rng.random() >= p:
        return None
    end = max(n.end_time for n in ns.notes)
    later = sorted({t for t in event_times(ns) if t > end})
    if later and rng.random() < 0.5:
        t = rng.choice(later)
        d = t - end
        while end + d < t:
            d = nx(d, 1)
        while end + d > t:
            d = nx(d, -1)
        k = rng.choice([-1, 0, 0, 1])
        d = max(0.0, nx(d, k))
        hist.add('drop:cut-off-on-an-event' + ('' if k == 0 else '-1ulp' if k < 0 else '+1ulp'))
    else:
        d = rng.choice([0.0, 0.0, 0.25, 0.5, 1.0, 2.5, 1])
        hist.add('drop:zero' if d == 0 else 'drop:round-value')
    if later:
        hist.add('drop:events-after-last-note')
    return d


# pretty_midi's own loader limit (`MAX_TICK = 1e7`): note_seq.midi_io raises it at import time, so files beyond it must
# still read back.  The quantifier of C03 has no bound on length; these cases lie just around and well above 10^7 ticks.
PM_DEFAULT_MAX_TICK = 10 ** 7
VERY_LONG_TARGETS = ('at-limit', 'just-above', 'well-above', 'just-below')


def exact_us_tempo(rng, tpq):
    """a tempo whose microseconds-per-quarter value is an integer that pretty_midi.write's float formula
    int(6e7 / (60. / (tick_scale * resolution))) reproduces exactly at this resolution - so that the open finding
    F-C03-3 (a tempo truncated by 1 us makes long sequences drift) is not what a very long case exercises."""
    for _ in range(50):
        us = rng.choice([200000, 250000, 300000, 400000, 500000, 600000, 240000, 1000000])
        qpm = 6e7 / us
        c = 60.0 / (qpm * tpq)
        if int(6e7 / (60. / (c * tpq))) == us and 6e7 / us == qpm:
            return qpm
    return 120.0


def gen_very_long(rng, target):
    """a MIDI-representable sequence of a handful of notes whose LAST event lies around / beyond tick 10^7
    (pretty_midi's default loader limit): high resolution, fast integral-microsecond tempos, one early tempo change
    at most, several groups.  `target`: 'just-below' (last tick 10^7 - 3: the loader's max_tick = 10^7 - 1),
    'at-limit' (last tick 10^7 - 1 or 10^7: the first files the default limit refuses), 'just-above', 'well-above'."""
    from note_seq.protobuf import music_pb2
    ns = music_pb2.NoteSequence()
    tpq = rng.choice([960, 960, 480])
    ns.ticks_per_quarter = tpq
    hist = {'verylong:' + target, 'tpq:>=500' if tpq >= 500 else 'tpq:<500'}
    tempos = [(0.0, exact_us_tempo(rng, tpq))]
    if rng.random() < 0.4:
        # one early change, exactly on a tick of the first tempo
        x = rng.choice([tpq, 2 * tpq, rng.randrange(1, 4 * tpq)])
        tempos.append((float(F(x) * F(60) / (F(tempos[0][1]) * tpq)), exact_us_tempo(rng, tpq)))
        hist.add('tempo:2')
    else:
        hist.add('tempo:1')
    stored = list(tempos)
    rng.shuffle(stored)
    for t, q in stored:
        x = ns.tempos.add()
        x.time, x.qpm = t, q
    tm = TempoMap(tpq, tempos)
    last = {'just-below': PM_DEFAULT_MAX_TICK - 3,
            'at-limit': PM_DEFAULT_MAX_TICK - rng.choice([1, 0]),
            'just-above': PM_DEFAULT_MAX_TICK + rng.choice([1, 2, 8000, rng.randrange(3, 100000)]),
            'well-above': rng.randrange(12 * 10 ** 6, 17 * 10 ** 6)}[target]
    groups = [(0, 0, False)] + rng.sample([(0, 5, False), (1, 0, False), (1, 40, False), (9, 0, True)], rng.choice([0, 1, 2]))
    if len({g[0] for g in groups}) < len(groups):
        hist.add('groups:several-programs-per-instrument')
    pitches = rng.sample(range(36, 96), 6)
    spans = []           # (start tick, end tick, group)
    x = 0
    for i in range(rng.choice([1, 2, 3])):          # a few notes at the very beginning
        ell = rng.choice([3, tpq // 2, tpq])
        spans.append((x, x + ell, groups[i % len(groups)]))
        x += ell
    if rng.random() < 0.5:                          # one somewhere in the middle
        mid = rng.randrange(10 ** 6, 9 * 10 ** 6)
        spans.append((mid, mid + rng.choice([3, 100, tpq]), rng.choice(groups)))
    for g in groups[1:]:                            # every group has a note (events need an instrument with notes)
        if all(sp[2] != g for sp in spans):
            spans.append((x, x + tpq // 2, g))
            x += tpq // 2
    ell = rng.choice([3, 10, tpq // 2, 5 * tpq])
    spans.append((last - ell, last, rng.choice(groups)))   # the LAST note ends on tick `last`
    for i, (a, b, g) in enumerate(spans):
        n = ns.notes.add()
        n.instrument, n.program, n.is_drum = g
        n.pitch, n.velocity = pitches[i % len(pitches)], rng.choice([1, 127, 80, rng.randrange(1, 128)])
        n.start_time, n.end_time = float(tm.time_of(F(a))), float(tm.time_of(F(b)))
    ns.total_time = max(n.end_time for n in ns.notes)
    g = spans[-1][2]
    if rng.random() < 0.5:                          # a late control change / bend on the last note's instrument
        c = ns.control_changes.add()
        c.instrument, c.program, c.is_drum = g
        c.time, c.control_number, c.control_value = float(tm.time_of(F(last - ell))), 64, rng.choice([0, 127])
        hist.add('cc')
    if rng.random() < 0.3:
        p = ns.pitch_bends.add()
        p.instrument, p.program, p.is_drum = g
        p.time, p.bend = float(tm.time_of(F(last - 1))), rng.choice([-8192, 8191, 100])
        hist.add('bend')
    if rng.random() < 0.5:
        ts = ns.time_signatures.add()
        ts.time, ts.numerator, ts.denominator = 0.0, rng.choice([4, 3, 6]), rng.choice([4, 8])
        hist.add('tsig')
    if rng.random() < 0.3:
        ks = ns.key_signatures.add()
        ks.time, ks.key, ks.mode = 0.0, rng.randrange(12), rng.choice([0, 1])
        hist.add('ksig:minor' if ks.mode else 'ksig:major')
    return ns, hist


def last_tick_class(ns):
    """where the last event of `ns` lies relative to pretty_midi's default loader limit (exact arithmetic, nearest tick)"""
    tm = TempoMap(ns.ticks_per_quarter or 220, [(t.time, t.qpm) for t in ns.tempos])
    ts = [n.end_time for n in ns.notes] + [e.time for f in (ns.control_changes, ns.pitch_bends, ns.time_signatures,
                                                          ns.key_signatures, ns.tempos) for e in f] + [0.0]
    k = math.floor(tm.tick_of(F(max(ts))) + F(1, 2))
    return 'last-tick:' + ('<=10^6' if k <= 10 ** 6 else '<10^7-2' if k + 2 < PM_DEFAULT_MAX_TICK else
                           '10^7-2..10^7' if k <= PM_DEFAULT_MAX_TICK else '10^7..1.2*10^7' if k <= 12 * 10 ** 6 else '>1.2*10^7')


def gen_malformed(rng):
    """sequences outside the quantifier that the writer must still treat as the model says: several tempos at one
    time (incl. two at time 0), zero tempos, bad time/key signatures, other key modes, reversed notes, events on
    groups without notes, negative / huge instrument numbers, out-of-range programs, arbitrary float times."""
    ns = nswire.NSGen(rng, max_notes=rng.choice([0, 3, 10]), with_meta=False).make(texts=False, sections=False)
    hist = set()
    ns.ticks_per_quarter = rng.choice([0, 24, 220, 480, 960])
    k = rng.random()
    if k < 0.25 and ns.tempos:
        rng.choice(ns.tempos).qpm = 0.0
        hist.add('tempo:zero-qpm')
    if rng.random() < 0.3:
        for _ in range(2):
            x = ns.tempos.add()
            x.time, x.qpm = rng.choice([0.0, 1.0]), rng.choice([120.0, 90.0, 60.0])
        hist.add('tempo:duplicate-times')
    if rng.random() < 0.3:
        for x in ns.time_signatures:
            x.numerator, x.denominator = rng.choice([(0, 4), (4, 0), (4, 3), (-1, 4), (4, 4)])
        hist.add('tsig:bad')
    if rng.random() < 0.3:
        for x in ns.key_signatures:
            x.key, x.mode = rng.choice([(0, 2), (11, 1), (12, 1), (12, 0), (-1, 0), (5, 7), (23, 0), (24, 0)])
        hist.add('ksig:odd')
    if rng.random() < 0.2 and ns.notes:
        n = rng.choice(ns.notes)
        n.start_time, n.end_time = n.end_time + 0.5, n.start_time
        hist.add('note:reversed')
    if rng.random() < 0.3:
        for n in ns.notes:
            if rng.random() < 0.3:
                n.instrument = rng.choice([-1, 0, 7, 100000])
                n.program = rng.choice([0, 127, 128, -1, 300])
        hist.add('note:odd-instrument-or-program')
    if rng.random() < 0.2:
        for e in list(ns.time_signatures) + list(ns.key_signatures):
            if rng.random() < 0.3:
                e.time = -0.5
        hist.add('sig:negative-time')
    drop = rng.choice([None, None, 0, 0.0, 0.5, 1, 2.5, -1.0])
    if drop is not None:
        hist.add('drop:%s' % ('zero' if drop == 0 else 'neg' if drop < 0 else 'pos'))
    return ns, drop, hist


def gen_tickmap_case(rng):
    import pretty_midi
    res = rng.choice([24, 96, 220, 480, 960, rng.randrange(24, 961)])
    nseg = rng.choice([1, 1, 2, 3, 5])

    def q():
        return us_tempo(rng) if rng.random() < 0.6 else rng.uniform(20, 300)
    scales = [(0, 60.0 / (q() * res))]
    tick = 0
    for _ in range(nseg - 1):
        tick += rng.choice([0, 1, 2, rng.randrange(1, 2000)])
        scales.append((tick, 60.0 / (res * q())))
    M = tick + rng.choice([0, 0, 1, 5, 1000])
    pm = pretty_midi.PrettyMIDI(resolution=res, initial_tempo=120.0)
    pm._tick_scales = list(scales)      # pylint: disable=protected-access
    pm._update_tick_to_time(M)          # pylint: disable=protected-access
    arr = pm._PrettyMIDI__tick_to_time  # pylint: disable=protected-access
    cl = scales[-1][1]
    times, kinds = [], []
    for _ in range(12):
        k = rng.random()
        if k < 0.2:
            t, kind = nx(float(arr[rng.randrange(0, M + 1)]), rng.randrange(-2, 3)), 'on-tick+-ulps'
        elif k < 0.45 and M > 0:
            i = rng.randrange(0, M)
            t, kind = nx(float((arr[i] + arr[i + 1]) / 2), rng.randrange(-2, 3)), 'midpoint-in-array+-ulps'
        elif k < 0.7:
            t, kind = nx(float(arr[M]) + (rng.randrange(0, 50) + 0.5) * cl, rng.randrange(-2, 3)), 'half-tick-beyond-array+-ulps'
        elif k < 0.9:
            t, kind = rng.uniform(0, float(arr[M]) * 1.5 + 1), 'arbitrary'
        else:
            t, kind = rng.choice([0.0, -0.5, 1e-9]), 'zero/negative'
        times.append(t)
        kinds.append(kind)
    return pm, res, scales, M, times, kinds


# ----------------------------------------------------------------------------- oracle (round-trip statement)
def roundtrip(midi_io, ns, drop=None):
    pm = midi_io.note_sequence_to_pretty_midi(ns) if drop is None else midi_io.note_sequence_to_pretty_midi(ns, drop)
    buf = io.BytesIO()
    pm.write(buf)
    return midi_io.midi_to_note_sequence(buf.getvalue()), buf.getvalue()


DROPPABLE = ('time_signatures', 'key_signatures', 'tempos', 'pitch_bends', 'control_changes')


def drop_variants(ns, drop):
    """what `drop_events_n_seconds_after_last_note = drop` leaves of `ns` according to its documentation: "events that
    occur this many seconds after the last note will be dropped" - the last note is the one that ENDS last (no other field,
    in particular not total_time, enters), notes themselves are never dropped.  Exact arithmetic on the doubles: an event
    strictly before  last_end + drop  stays, one strictly after it goes.  The text does not decide an event exactly AT the
    cut-off, nor one between the exact sum and the sum rounded to a double; both readings are returned then
    (first: such events kept, second: dropped).  Without notes there is no last note: both `nothing dropped` and
    `cut-off = drop` are accepted."""
    from note_seq.protobuf import music_pb2
    if drop is None:
        return [ns]
    ends = [n.end_time for n in ns.notes]
    exact = (max(F(e) for e in ends) if ends else F(0)) + F(drop)
    fl = F(float((max(ends) if ends else 0.0) + drop))
    lo, hi = min(exact, fl), max(exact, fl)
    amb = any(lo <= F(e.time) <= hi for f in DROPPABLE for e in getattr(ns, f))
    out = []
    for keep_amb in ([True, False] if amb else [True]):
        c = music_pb2.NoteSequence()
        c.CopyFrom(ns)
        for f in DROPPABLE:
            kept = [e for e in getattr(ns, f) if F(e.time) < lo or (keep_amb and F(e.time) <= hi)]
            c.ClearField(f)
            getattr(c, f).extend(kept)
        out.append(c)
    if not ends:
        out.append(ns)
    return out


def judge(ns, r, drop=None):
    """the round-trip statement for `r` = what came back for `ns` written with `drop`.  Returns (what fails or None,
    finding id or None)."""
    whats, finding = [], None
    variants = drop_variants(ns, drop)
    for v in variants:
        w = oracle(v, r)
        if w is None:
            return None, None
        whats.append(w)
    # known finding F-C03-3 ONLY when undoing the one-microsecond tempo truncation explains the whole failure
    for v in variants:
        try:
            c = drift_corrected(v, r)
            if c is not None and oracle(v, c) is None:
                finding = 'F-C03-3'
        except Exception:  # pylint: disable=broad-except
            pass
    return whats[0] + ('' if drop is None else ' [drop_events_n_seconds_after_last_note=%r, last note ends at %r, total_time %r]' % (
        drop, max([n.end_time for n in ns.notes] or [0.0]), ns.total_time)), finding


def in_effect(events, t, value, default):
    """value of the last event (sorted by time) at or before t"""
    cur = default
    for e in sorted(events, key=lambda e: e.time):
        if F(e.time) <= t:
            cur = value(e)
    return cur


def _match(cands):
    """perfect matching of input groups to output instruments (Kuhn); cands: {g: [j,…]}"""
    owner = {}

    def aug(g, seen):
        for j in cands[g]:
            if j in seen:
                continue
            seen.add(j)
            if j not in owner or aug(owner[j], seen):
                owner[j] = g
                return True
        return False
    for g in cands:
        if not aug(g, set()):
            return None
    return {g: j for j, g in owner.items()}


def oracle(ns, r, default_qpm=120.0):
    """the round-trip statement of C03, evaluated on the input `ns` and the implementation's result `r` in exact
    arithmetic.  Returns a description of what fails, or None.  Written from the property text."""
    tpq = ns.ticks_per_quarter or 220
    tm = TempoMap(tpq, [(t.time, t.qpm) for t in ns.tempos], default_qpm)

    def tol(t):
        return tm.local_tick(F(t))

    def close(a, b):
        return abs(F(a) - F(b)) <= tol(a)
    # --- notes: same multiset (pitch, velocity, program, drum flag), times within one tick, grouping preserved
    if len(r.notes) != len(ns.notes):
        return 'note count %d -> %d (dropped or duplicated)' % (len(ns.notes), len(r.notes))
    gin, gout = {}, {}
    for n in ns.notes:
        gin.setdefault((n.instrument, n.program, n.is_drum), []).append(n)
    for n in r.notes:
        gout.setdefault(n.instrument, []).append(n)
    for j, l in gout.items():
        if len({(n.program, n.is_drum) for n in l}) != 1:
            return 'returned instrument %d mixes programs / drum flags' % j
    if len(gout) != len(gin):
        return 'grouping changed: %d (instrument, program, drum) groups -> %d instruments' % (len(gin), len(gout))
    srt = lambda l: sorted(l, key=lambda n: (n.pitch, F(n.start_time), F(n.end_time), n.velocity))

    def notes_match(a, b):
        return len(a) == len(b) and all(
            x.pitch == y.pitch and x.velocity == y.velocity and close(x.start_time, y.start_time) and
            close(x.end_time, y.end_time) for x, y in zip(srt(a), srt(b)))
    # control changes and pitch bends belong to the comparison of a group with a returned instrument: two groups may carry
    # the very same notes (a unison on two instruments with one program) and differ only in their controllers, so the
    # one-to-one assignment is sought over notes AND events together (an assignment over notes alone is ambiguous there,
    # and judging the events by an arbitrary one of the note-wise assignments raised an alarm on correct code)
    EVK = (('control changes', lambda q: q.control_changes, lambda c: (c.control_number, c.control_value)),
           ('pitch bends', lambda q: q.pitch_bends, lambda c: (c.bend,)))
    ev_in, ev_out = {}, {}
    for name, fld, val in EVK:
        for c in fld(ns):
            g = (c.instrument, c.program, c.is_drum)
            if g in gin:
                ev_in.setdefault((name, g), []).append(c)
        for c in fld(r):
            if c.instrument not in gout:
                return '%s returned on an instrument without notes' % name
            m = gout[c.instrument][0]
            if (c.program, c.is_drum) != (m.program, m.is_drum):
                return '%s returned with another program / drum flag' % name
            ev_out.setdefault((name, c.instrument), []).append(c)

    def events_differ(g, j):
        for name, _, val in EVK:
            x = sorted(ev_in.get((name, g), []), key=lambda c: (val(c), F(c.time)))
            y = sorted(ev_out.get((name, j), []), key=lambda c: (val(c), F(c.time)))
            if len(x) != len(y) or any(val(p) != val(q) or not close(p.time, q.time) for p, q in zip(x, y)):
                return '%s of group %s not preserved (%d -> %d)' % (name, g, len(x), len(y))
        return None
    cands = {}
    for g, l in gin.items():
        by_notes = [j for j, m in gout.items() if (m[0].program, m[0].is_drum) == (g[1], g[2]) and notes_match(l, m)]
        if not by_notes:
            near = [j for j, m in gout.items() if (m[0].program, m[0].is_drum) == (g[1], g[2])]
            return 'notes of group %s (instrument, program, drum) not returned on one instrument within one tick (same program/drum instruments: %s)' % (g, near)
        cands[g] = [j for j in by_notes if events_differ(g, j) is None]
        if not cands[g]:
            return events_differ(g, by_notes[0])
    mp = _match(cands)
    if mp is None:
        return 'groups merged: no one-to-one assignment of groups to returned instruments (notes, control changes and pitch bends together)'
    for n in r.notes:
        if not F(n.start_time) < F(n.end_time):
            return 'returned note has no positive length'
    # --- tempo / time signature / key in effect at every instant (probed at every event time and between changes)
    probes = {F(0)}
    for n in ns.notes:
        probes.update((F(n.start_time), F(n.end_time)))
    for fld in (ns.control_changes, ns.pitch_bends, ns.tempos, ns.time_signatures, ns.key_signatures,
                r.tempos, r.time_signatures, r.key_signatures):
        probes.update(F(e.time) for e in fld)
    ps = sorted(probes)
    probes.update((a + b) / 2 for a, b in zip(ps, ps[1:]))
    probes.add(ps[-1] + 1)

    # exact times of the changes of each kind, input and result together (an event at exactly 0 is not a change)
    change_times = {k: [F(e.time) for f in (getattr(ns, k), getattr(r, k)) for e in f if F(e.time) > 0]
                    for k in ('tempos', 'time_signatures', 'key_signatures')}

    def clear_of(t, kind):
        # farther than one tick from every change of that kind
        tt = tol(t)
        return all(abs(t - u) > tt for u in change_times[kind])
    for t in sorted(probes):
        if clear_of(t, 'tempos'):
            qi = in_effect(ns.tempos, t, lambda e: F(e.qpm), F(default_qpm))
            qo = in_effect(r.tempos, t, lambda e: F(e.qpm), F(default_qpm))
            if qo <= 0 or abs(F(60000000) / qi - F(60000000) / qo) > 1 + F(1, 1000):
                return 'tempo in effect at %s: %s -> %s qpm' % (float(t), float(qi), float(qo))
        if clear_of(t, 'time_signatures'):
            a = in_effect(ns.time_signatures, t, lambda e: (e.numerator, e.denominator), (4, 4))
            b = in_effect(r.time_signatures, t, lambda e: (e.numerator, e.denominator), (4, 4))
            if a != b:
                return 'time signature in effect at %s: %s -> %s' % (float(t), a, b)
        if clear_of(t, 'key_signatures'):
            a = in_effect(ns.key_signatures, t, lambda e: (e.key, e.mode), None)
            b = in_effect(r.key_signatures, t, lambda e: (e.key, e.mode), None)
            if a != b:
                return 'key in effect at %s: %s -> %s' % (float(t), a, b)
    return None


def canon(r):
    """what a round trip returns, as comparable data (exact times) — for storage-order independence"""
    return (sorted((n.instrument, n.program, n.is_drum, n.pitch, n.velocity, n.start_time, n.end_time) for n in r.notes),
            sorted((c.instrument, c.program, c.is_drum, c.control_number, c.control_value, c.time) for c in r.control_changes),
            sorted((c.instrument, c.program, c.is_drum, c.bend, c.time) for c in r.pitch_bends),
            [(t.time, t.qpm) for t in r.tempos],
            [(t.time, t.numerator, t.denominator) for t in r.time_signatures],
            [(t.time, t.key, t.mode) for t in r.key_signatures], r.total_time, r.ticks_per_quarter)


def drift_corrected(ns, r, default_qpm=120.0):
    """F-C03-3 signature.  If some returned tempo is exactly one microsecond per quarter short of the tempo that was
    written there, return a copy of `r` in which that truncation is undone: every returned time is converted to its
    (real-valued) tick position with the returned tempos and back to seconds with the tempos as written, i.e. the
    accumulated drift t*(1/us - 1/(us+1)) is removed.  Returns None when no tempo is one microsecond short."""
    from note_seq.protobuf import music_pb2
    tpq = r.ticks_per_quarter
    tin = TempoMap(tpq, [(t.time, t.qpm) for t in ns.tempos], default_qpm)
    ret = sorted(((F(t.time), F(t.qpm)) for t in r.tempos), key=lambda x: x[0])    # stable: of two changes on one tick the later stays later
    if not ret or ret[0][0] != 0:
        return None
    fixed, short = [], False
    for i, (t, q) in enumerate(ret):
        nxt = ret[i + 1][0] if i + 1 < len(ret) else t + 1
        want = tin.qpm_at((t + nxt) / 2)                  # the tempo the input has in force inside this segment
        d = F(60000000) / want - F(60000000) / q          # microseconds per quarter: written - returned
        if F(999, 1000) < d < F(1001, 1000):
            fixed.append(want)
            short = True
        else:
            fixed.append(q)
    if not short:
        return None
    # tick positions of the returned changes (returned map), then times under the corrected tempos
    pos, tb = [F(0)], [F(0)]
    for i in range(1, len(ret)):
        dticks = (ret[i][0] - ret[i - 1][0]) * ret[i - 1][1] * tpq / 60
        pos.append(pos[-1] + dticks)
        tb.append(tb[-1] + dticks * 60 / (fixed[i - 1] * tpq))

    def conv(t):
        t = F(t)
        i = max(j for j in range(len(ret)) if ret[j][0] <= t or j == 0)
        x = pos[i] + (t - ret[i][0]) * ret[i][1] * tpq / 60
        return float(tb[i] + (x - pos[i]) * 60 / (fixed[i] * tpq))
    c = music_pb2.NoteSequence()
    c.CopyFrom(r)
    for n in c.notes:
        n.start_time, n.end_time = conv(n.start_time), conv(n.end_time)
    for fld in (c.control_changes, c.pitch_bends, c.time_signatures, c.key_signatures, c.tempos):
        for e in fld:
            e.time = conv(e.time)
    for e, q in zip(sorted(c.tempos, key=lambda e: e.time), fixed):
        e.qpm = float(q)
    return c


RAISED = 'round trip raised '


def oracle_case(midi_io, ns, shuffle_rng=None, drop=None):
    """run the real round trip and judge it.  Returns (what-fails-or-None, result, finding-id-or-None)."""
    from note_seq.protobuf import music_pb2
    given = music_pb2.NoteSequence()          # untouched copy: the statement is about the sequence that was GIVEN
    given.CopyFrom(ns)
    try:
        r, _ = roundtrip(midi_io, ns, drop)
    except Exception as e:  # pylint: disable=broad-except
        f4 = isinstance(e, ValueError) and 'power of 2' in str(e) and any(log2_inexact(t.denominator) for t in ns.time_signatures)
        return RAISED + '%s: %s' % (type(e).__name__, str(e)[:160]), None, 'F-C03-4' if f4 else None
    what, finding = judge(given, r, drop)
    if what is None and snap(ns) != snap(given):
        ns.CopyFrom(given)
        return CORR + 'note_sequence_to_pretty_midi changed the sequence it was given (the round trip still holds)', r, None
    if what is None and shuffle_rng is not None:
        sh = nswire.shuffled(ns, shuffle_rng)
        # only tempos and notes are claimed order independent: restore the other fields' order
        for f in ('time_signatures', 'key_signatures', 'control_changes', 'pitch_bends', 'text_annotations'):
            sh.ClearField(f)
            getattr(sh, f).extend(getattr(ns, f))
        try:
            r2, _ = roundtrip(midi_io, sh, drop)
        except Exception as e:  # pylint: disable=broad-except
            return 'round trip of the shuffled sequence raised %s' % type(e).__name__, r, None
        if canon(r2) != canon(r):
            what = 'result depends on the storage order of tempos / notes'
    return what, r, finding


# ----------------------------------------------------------------------------- histories (purity / aliasing across calls)
def snap(ns):
    return ns.SerializeToString(deterministic=True)


def caller_edit(r):
    """what a caller may do with a sequence it was handed (it owns it): transpose, shift, retime, append, delete."""
    for n in r.notes:
        n.pitch = (n.pitch + 12) % 128
        n.velocity = 1 + n.velocity % 127
        n.start_time += 3.0
        n.end_time += 4.5
        n.program = (n.program + 1) % 128
    for f in DROPPABLE:
        for e in getattr(r, f):
            e.time += 1.25
    for t in r.tempos:
        t.qpm = t.qpm * 2 + 1
    x = r.notes.add()
    x.pitch, x.velocity, x.start_time, x.end_time, x.instrument, x.program = 1, 1, 100.0, 101.0, 77, 77
    del r.time_signatures[:]
    r.total_time += 7.0
    r.ticks_per_quarter += 1


def pm_edit(pm):
    """the same for a PrettyMIDI object the caller was handed."""
    for i in pm.instruments:
        for n in i.notes:
            n.pitch, n.start, n.end = (n.pitch + 12) % 128, n.start + 3.0, n.end + 4.5
        for c in i.control_changes:
            c.time += 1.0
        del i.pitch_bends[:]
        i.program = (i.program + 1) % 128
        if i.notes:
            i.notes.pop()
    for t in pm.time_signature_changes:
        t.time += 1.0
    del pm.key_signature_changes[:]
    pm._tick_scales.append((pm._tick_scales[-1][0] + 7, 0.001))     # pylint: disable=protected-access
    if pm.instruments:
        pm.instruments.pop()


def pm_shared(p, q):
    """objects (instruments, notes, bends, control changes, signatures, the tick-scale list) two PrettyMIDI objects share"""
    def parts(pm):
        out = {id(pm._tick_scales): 'tick scale list', id(pm.instruments): 'instrument list'}   # pylint: disable=protected-access
        for name, l in (('time signature', pm.time_signature_changes), ('key signature', pm.key_signature_changes)):
            out[id(l)] = name + ' list'
            out.update((id(x), name) for x in l)
        for i in pm.instruments:
            out[id(i)] = 'Instrument'
            for name, l in (('Note', i.notes), ('PitchBend', i.pitch_bends), ('ControlChange', i.control_changes)):
                out[id(l)] = name + ' list'
                out.update((id(x), name) for x in l)
        return out
    a, b = parts(p), parts(q)
    return sorted({a[k] for k in a if k in b})


CORR = 'CORRESPONDENCE: '      # prefix of a finding that is not decided by the property statement (reported as a disagreement)


def history_case(midi_io, a, b, drop_a, drop_b, path):
    """short call histories over every public function of the property.  Statement-level verdicts come from `judge` only
    (the round-trip statement evaluated on what the LATER call of a history returns, against untouched copies of the
    sequences); everything else a pure function would guarantee (new objects, equal results for equal arguments,
    arguments left byte-for-byte as they were, same bytes through the file variant, renamed entry points) is reported with
    the prefix CORR = broken correspondence (the model is a pure function).  a, b: two valid sequences; `path` is written
    several times.  Returns (what fails or None, finding id or None, tags)."""
    import pretty_midi
    from note_seq.protobuf import music_pb2
    tags, corr = [], []
    w = midi_io.note_sequence_to_pretty_midi
    sa, sb = snap(a), snap(b)
    a0, b0 = music_pb2.NoteSequence(), music_pb2.NoteSequence()      # untouched copies: what was given
    a0.CopyFrom(a)
    b0.CopyFrom(b)

    def back(pm):
        buf = io.BytesIO()
        pm.write(buf)
        return midi_io.midi_to_note_sequence(buf.getvalue()), buf.getvalue()

    def done(what=None, finding=None):
        if what is None and (snap(a) != sa or snap(b) != sb):
            corr.append('a conversion function changed the sequence it was given')
        if what is None and corr:
            what = CORR + '; '.join(corr)
        return what, finding, tags
    # ---- H1: the writer twice on the same sequence; the first result edited in place; a third call, read back
    pm1, pm2 = w(a, drop_a), w(a, drop_a)
    l2 = pm_line(pm2)
    if pm1 is pm2 or pm_shared(pm1, pm2):
        corr.append('note_sequence_to_pretty_midi: two calls on the same sequence returned objects that share %s'
                    % (['the PrettyMIDI object'] if pm1 is pm2 else pm_shared(pm1, pm2)))
    if pm_line(pm1) != l2:
        corr.append('note_sequence_to_pretty_midi: two calls on the same sequence built different PrettyMIDI objects')
    pm_edit(pm1)
    pm3 = w(a, drop_a)
    tags.append('writer: same sequence twice, first result edited, third call read back')
    r, _ = back(pm3)
    what, finding = judge(a0, r, drop_a)
    if what:
        return done('note_sequence_to_pretty_midi called again after the caller edited the PrettyMIDI object of an earlier call: ' + what, finding)
    r, bytes_a = back(pm2)
    what, finding = judge(a0, r, drop_a)
    if what:
        return done('PrettyMIDI object of one call, written after the caller edited the object of ANOTHER call: ' + what, finding)
    if pm_line(pm3) != l2:
        corr.append('note_sequence_to_pretty_midi: third call differs from the second')
    # ---- H2: file variant; the SAME PATH written twice with different sequences
    midi_io.note_sequence_to_midi_file(a, path, drop_a)
    with open(path, 'rb') as f:
        if f.read() != bytes_a:
            corr.append('note_sequence_to_midi_file wrote other bytes than note_sequence_to_pretty_midi(...).write')
    ra = midi_io.midi_file_to_note_sequence(path)
    what, finding = judge(a0, ra, drop_a)
    if what:
        return done('note_sequence_to_midi_file, then midi_file_to_note_sequence: ' + what, finding)
    ra_snap = snap(ra)
    midi_io.note_sequence_to_midi_file(b, path, drop_b)
    rb = midi_io.midi_file_to_note_sequence(path)
    tags.append('file: same path rewritten with another sequence')
    what, finding = judge(b0, rb, drop_b)
    if what:
        return done('second sequence written to the SAME PATH, then midi_file_to_note_sequence(path): ' + what, finding)
    with open(path, 'rb') as f:
        data = f.read()
    what, finding = judge(b0, midi_io.midi_to_note_sequence(data), drop_b)
    if what:
        return done('second sequence written to the SAME PATH, file content given to midi_to_note_sequence: ' + what, finding)
    if rb is ra:
        corr.append('midi_file_to_note_sequence returned the object of an earlier call')
    rb_snap = snap(rb)
    caller_edit(rb)
    rb2 = midi_io.midi_file_to_note_sequence(path)
    tags.append('file: re-read after the caller edited the earlier result')
    what, finding = judge(b0, rb2, drop_b)
    if what:
        return done('midi_file_to_note_sequence on the unchanged file after the caller edited the result of the previous call%s: %s' % (
            ' (the very object handed out before is returned again)' if rb2 is rb else '', what), finding)
    if rb2 is rb or snap(rb2) != rb_snap:
        corr.append('midi_file_to_note_sequence: second read of an unchanged file differs from the first')
    if snap(ra) != ra_snap:
        what, finding = judge(a0, ra, drop_a)
        if what:
            return done('the sequence midi_file_to_note_sequence returned EARLIER changed behind the caller\'s back: ' + what, finding)
        corr.append('a sequence returned earlier changed behind the caller\'s back')
    # ---- H3: the reader on bytes and on a PrettyMIDI object, twice, first result edited
    r1 = midi_io.midi_to_note_sequence(data)
    if snap(r1) != rb_snap:
        corr.append('midi_to_note_sequence(bytes of the file) differs from midi_file_to_note_sequence(path)')
    caller_edit(r1)
    r2 = midi_io.midi_to_note_sequence(bytes(bytearray(data)))
    tags.append('reader: same bytes twice, first result edited')
    what, finding = judge(b0, r2, drop_b)
    if what:
        return done('midi_to_note_sequence on the same bytes after the caller edited the first result%s: %s' % (
            ' (the very object handed out before is returned again)' if r2 is r1 else '', what), finding)
    if r2 is r1 or snap(r2) != rb_snap:
        corr.append('midi_to_note_sequence: second decode of the same bytes differs from the first')
    pm = pretty_midi.PrettyMIDI(io.BytesIO(data))
    lp = pm_line(pm)
    r3 = midi_io.midi_to_note_sequence(pm)
    caller_edit(r3)
    r4 = midi_io.midi_to_note_sequence(pm)
    tags.append('reader: same PrettyMIDI object twice, first result edited')
    what, finding = judge(b0, r4, drop_b)
    if what:
        return done('midi_to_note_sequence on the same PrettyMIDI object after the caller edited the first result%s: %s' % (
            ' (the very object handed out before is returned again)' if r4 is r3 else '', what), finding)
    if pm_line(pm) != lp:
        corr.append('midi_to_note_sequence changed the PrettyMIDI object it was given')
    if r4 is r3 or snap(r4) != rb_snap:
        corr.append('midi_to_note_sequence: second call on the same PrettyMIDI object differs from the decode of the bytes')
    # ---- H4: the renamed entry points are the same functions
    l5 = pm_line(midi_io.sequence_proto_to_pretty_midi(a, drop_a))
    midi_io.sequence_proto_to_midi_file(a, path, drop_a)
    r5, r6 = midi_io.midi_file_to_sequence_proto(path), midi_io.midi_to_sequence_proto(bytes_a)
    tags.append('renamed entry points')
    for r in (r5, r6):
        what, finding = judge(a0, r, drop_a)
        if what:
            return done('renamed entry points (sequence_proto_to_midi_file / midi_file_to_sequence_proto / midi_to_sequence_proto): ' + what, finding)
    if l5 != l2 or snap(r5) != ra_snap or snap(r6) != ra_snap:
        corr.append('a renamed entry point (sequence_proto_to_* / *_to_sequence_proto) behaves differently from the function it names')
    return done()


def unknown_failures(chk):
    """failures that are not instances of an open known finding (those never stop a stream early)"""
    open_ids = {e['id'] for e in chk.known if e.get('status') == 'open'}
    return sum(1 for f in chk.failures if f['finding'] not in open_ids)


def report(chk, what, replay_input, finding=None):
    """a statement-level failure -> chk.fail (concrete failing input); a CORR finding -> broken correspondence."""
    if what.startswith(CORR):
        chk.disagree('purity (call histories)', replay_input, what[len(CORR):], 'every conversion is a function of its arguments: new '
                     'objects, equal results for equal arguments, arguments left as they were')
    else:
        chk.fail(what, replay_input, finding=finding)


def run_history(midi_io, a, b, da, db, path):
    try:
        return history_case(midi_io, a, b, da, db, path)
    except Exception as e:  # pylint: disable=broad-except
        f4 = isinstance(e, ValueError) and 'power of 2' in str(e) and any(log2_inexact(t.denominator) for x in (a, b) for t in x.time_signatures)
        return 'a call of the history raised %s: %s' % (type(e).__name__, str(e)[:160]), 'F-C03-4' if f4 else None, []


# ----------------------------------------------------------------------------- corpus
def corpus_sequence(obj):
    """corpus / replay objects: {'sequence': <wire>} or the two historical replays (tempos / groups)."""
    from note_seq.protobuf import music_pb2
    if 'sequence' in obj:
        return nswire.decode(obj['sequence'])
    ns = music_pb2.NoteSequence()
    ns.ticks_per_quarter = obj.get('ticks_per_quarter', 220)
    for t, q in obj.get('tempos', []):
        x = ns.tempos.add()
        x.time, x.qpm = t, q
    if 'groups' in obj:
        for i, (inst, prog, drum) in enumerate(obj['groups']):
            n = ns.notes.add()
            n.instrument, n.program, n.is_drum = inst, prog, drum
            n.pitch, n.velocity, n.start_time, n.end_time = 60 + 2 * i, 100, 0.5 * i, 0.5 * i + 0.4
    for spec in obj.get('notes', []):
        n = ns.notes.add()
        n.pitch, n.velocity, n.start_time, n.end_time = spec[:4]
        if len(spec) > 4:
            n.instrument, n.program, n.is_drum = spec[4:7]
    if not ns.notes:
        n = ns.notes.add()
        n.pitch, n.velocity, n.start_time, n.end_time = 60, 100, 2.5, 3.5
    ns.total_time = max(n.end_time for n in ns.notes)
    return ns


# ----------------------------------------------------------------------------- run
def run(chk):
    from note_seq import midi_io
    generate(chk)
    chk.prove(MODULES, THEOREMS, [EXE], extra_trusted=[
        'rne53 as a model of IEEE-754 binary64 arithmetic (validated bit-exactly by every request of this run)',
        'pretty_midi tick map (_update_tick_to_time / time_to_tick / get_tempo_changes) transcribed as tickToTime / '
        'timeToTick / getTempoChanges: third party, validated bit-exactly by stream tickmap',
        'pretty_midi container constructors (argument validation) and program_to_instrument_name',
        'NOT PROVED, MONITORED ONLY: PrettyMIDI.write -> mido serialisation / parsing -> PrettyMIDI(file) '
        '(byte-level encode/decode); its assumed contract is Model/C03 `transportInsts`, sampled end to end by '
        'streams roundtrip-monitor / roundtrip-predicted',
        'protobuf message equality / truthiness, CPython sorted() stability, dict key uniqueness'])
    chk.rule = ('tickmap: random sorted _tick_scales lists (1-5 segments, duplicate ticks, array length beyond the last tempo), '
                'times on ticks, half-way between ticks inside and beyond the array, each moved by -2..+2 ulps; '
                'write/read: generated MIDI-representable sequences (several programs per instrument number incl. instrument 0 '
                'and drums, 0-4 microsecond tempos stored in random order, notes generated in tick space on ticks / half ticks / '
                'exactly two ticks long / touching, control changes and bends on instruments with notes, power-of-two time '
                'signatures, major/minor keys, ticks_per_quarter 24..960 or unset) plus a malformed stream (zero / duplicate-time '
                'tempos, bad signatures, other key modes, reversed notes, odd instrument numbers and programs, '
                'drop_events_n_seconds_after_last_note); a few VERY LONG sequences (a handful of notes, 480/960 ticks per quarter, '
                'integral-microsecond tempos, last event just below / at / just above / well above tick 10^7 = pretty_midi\'s default '
                'loader limit, which midi_io raises); non-trivial = distinct request on which model and implementation return a value or a documented error')
    reqs, impl, meta = [], [], []

    def add(stream, req, res, hist, key=None):
        reqs.append(req)
        impl.append(res)
        meta.append((stream, hist, key))

    # (a) tick map vs pretty_midi
    rng = chk.subrng('tickmap')
    for _ in range(chk.n(1500, 20000)):
        pm, res, scales, M, times, kinds = gen_tickmap_case(rng)
        tmw = scales_wire(scales)
        add('tickmap', 't2k %d %s %s' % (M, tmw, wl(rat(t) for t in times)),
            'ok ' + wl(int(pm.time_to_tick(t)) for t in times), sorted(set(kinds)) + ['segments:%d' % len(scales)])
        a, b = pm.get_tempo_changes()
        add('tickmap', 'tempos %d %s' % (res, tmw), 'ok ' + wl('%s %s' % (rat(x), rat(y)) for x, y in zip(a, b)), 'get_tempo_changes')
        add('tickmap', 'micros %d %s' % (res, wl(rat(c) for _, c in scales)),
            'ok ' + wl(int(6e7 / (60. / (c * res))) for _, c in scales), 'write-tempo-microseconds')
        us = [rng.randint(1, 16777215) for _ in range(4)] + [500000]
        add('tickmap', 'uscale %d %s' % (res, wl(us)), 'ok ' + wl(rat(60.0 / ((6e7 / u) * res)) for u in us), 'read-tempo-scale')
        ks = [rng.randrange(0, M + 50) for _ in range(8)] + [M, 0]
        add('tickmap', 'k2t %s %s' % (tmw, wl(ks)), 'ok ' + wl(rat(float(pm.tick_to_time(k))) for k in ks), 'tick_to_time')
    # key encoding (whole table + out of range)
    for key in range(-2, 15):
        for mode in range(0, 8):
            add('key', 'ekey %d %d' % (key, mode), None, 'encode')   # filled from the writer below
    # (b) writer / reader models vs the real functions
    seqs = []
    hist_cases = []          # (kind, a, b, drop_a, drop_b)
    for name, obj in corpus_cases(PID):
        if obj.get('history'):
            hist_cases.append(('corpus:' + name, nswire.decode(obj['sequence']), nswire.decode(obj['second']),
                               obj.get('drop'), obj.get('second_drop')))
        seqs.append(('corpus:' + name, corpus_sequence(obj), obj.get('drop'), {'corpus'}))
    # a handful of VERY LONG sequences (last tick around / beyond pretty_midi's default loader limit of 10^7): cheap
    # (few notes), but the reader allocates one float per tick, so only a few per run
    rng = chk.subrng('verylong')
    for i in range(chk.n(3, 12)):
        ns, hist = gen_very_long(rng, VERY_LONG_TARGETS[i % len(VERY_LONG_TARGETS)])
        seqs.append(('verylong', ns, None, hist))
    # (incl. denominator 2^29, on which the write raises inside mido: open known finding F-C03-4, seen on every run)
    for ns, tag in gen_extremes():
        seqs.append(('valid', ns, None, {'extreme: ' + tag}))
        if ns.notes:
            seqs.append(('valid', ns, 0.0, {'extreme: ' + tag, 'drop:zero'}))
    rng = chk.subrng('valid')
    for _ in range(chk.n(1500, 20000)):
        ns, hist = gen_valid(rng)
        seqs.append(('valid', ns, pick_drop(rng, ns, hist), hist))
    rng = chk.subrng('malformed')
    for _ in range(chk.n(1000, 12000)):
        ns, drop, hist = gen_malformed(rng)
        seqs.append(('malformed', ns, drop, hist))
    pms = []
    for kind, ns, drop, hist in seqs:
        wire = nswire.encode(ns)
        before = snap(ns)
        pm, res = write_result(midi_io, ns, drop)
        if snap(ns) != before:       # also when the call raised
            chk.disagree('write: argument changed', {'request': 'write %s %s' % ('-' if drop is None else rat(drop), wire[:6000])},
                         'note_sequence_to_pretty_midi changed the sequence it was given (%s)' % res[:40], 'argument left as it was')
            ns.ParseFromString(before)
        add('write', 'write %s %s' % ('-' if drop is None else rat(drop), wire), res,
            sorted(hist) + ['result:' + (res if res.startswith('err') else 'ok'), 'stream:' + kind.split(':')[0]])
        if pm is not None:
            pms.append(pm)
    # key requests: real encoding through the writer
    from note_seq.protobuf import music_pb2
    ki = [i for i, m in enumerate(meta) if m[0] == 'key']
    for i in ki:
        _, key, mode = reqs[i].split()
        s = music_pb2.NoteSequence()
        k = s.key_signatures.add()
        k.key, k.mode = int(key), int(mode)
        try:
            impl[i] = 'ok %d' % midi_io.note_sequence_to_pretty_midi(s).key_signature_changes[0].key_number
        except ValueError:
            # the model's encodeKey is total; the ValueError comes from the KeySignature constructor (checked in `write`)
            impl[i] = 'ok %d' % (int(key) + (midi_io._PRETTY_MIDI_MAJOR_TO_MINOR_OFFSET if int(mode) == music_pb2.NoteSequence.KeySignature.MINOR else 0))
    # reader on the writer's objects, on objects parsed from the written bytes, and on mutilated objects
    rng = chk.subrng('read')
    import pretty_midi
    for pm in pms[:chk.n(1500, 20000)]:
        k = rng.random()
        hist = ['source:writer-object']
        if k < 0.35:
            try:
                buf = io.BytesIO()
                pm.write(buf)
                pm = pretty_midi.PrettyMIDI(io.BytesIO(buf.getvalue()))
                hist = ['source:parsed-from-bytes']
            except Exception:  # pylint: disable=broad-except
                pass
        elif k < 0.5:
            hist = ['source:mutilated']
            kk = rng.random()
            if kk < 0.3:
                pm.resolution = rng.choice([0, -1, -480])
            elif kk < 0.7 and pm.key_signature_changes:
                rng.choice(pm.key_signature_changes).key_number = rng.choice([24, 25, 47, -1, 12, 23])
            elif pm.time_signature_changes:
                rng.choice(pm.time_signature_changes).denominator = rng.choice([2 ** 31, 2 ** 31 - 1, 2 ** 40])
        line = pm_line(pm)
        _, res = read_result(midi_io, pm)
        add('read', 'read ' + line, res, hist + ['result:' + (res if res.startswith('err') else 'ok')])
        if pm_line(pm) != line:      # also when the call raised
            chk.disagree('read: argument changed', {'request': 'read ' + line[:6000]}, 'midi_to_note_sequence changed the '
                         'PrettyMIDI object it was given: ' + pm_line(pm)[:600], 'argument left as it was')
    for i in range(-3, 40):
        try:
            import types
            ks = types.SimpleNamespace(key_number=i, time=0.0)
            pmx = pretty_midi.PrettyMIDI()
            pmx.key_signature_changes = [ks]
            r = midi_io.midi_to_note_sequence(pmx)
            res = 'ok %d %d' % (r.key_signatures[0].key, r.key_signatures[0].mode)
        except midi_io.MIDIConversionError:
            res = 'err MIDIConversionError'
        add('key', 'dkey %d' % i, res, 'decode')
    model = chk.driver(EXE, reqs)
    for req, a, b, (stream, hist, _) in zip(reqs, impl, model, meta):
        chk.count(stream, req[:3000], b != 'bad-op', hist=hist)
        if a != b:
            chk.disagree(stream, {'request': req[:6000]}, a[:800], b[:800])
    for s in ('t2k', 'write - NS', 'read'):
        i = next((i for i, r in enumerate(reqs) if r.startswith(s)), None)
        if i is not None:
            chk.sample({'request': reqs[i][:260] + ' …', 'impl': impl[i][:200] + ' …', 'model_equal': impl[i] == model[i]})

    # (c) END-TO-END MONITOR across third-party code + the property oracle on the real round trip
    chk.notes['roundtrip-monitor'] = ('sampling across third-party code (pretty_midi.write, mido, pretty_midi loader): '
                                      'monitored, not proved')
    srng = chk.subrng('shuffle')
    todo = [(kind, ns, drop) for kind, ns, drop, _ in seqs if kind != 'malformed']
    rng = chk.subrng('long')
    for _ in range(chk.n(100, 1500)):
        ns, hist = gen_valid(rng, long_times=True)
        todo.append(('long', ns, pick_drop(rng, ns, hist, 0.25)))
    rt_reqs, rt_real = [], []
    for kind, ns, drop in todo:
        what, r, finding = oracle_case(midi_io, ns, srng, drop)
        ends = [n.end_time for n in ns.notes]
        chk.count('roundtrip-monitor', None, hist=[
            'stream:' + kind.split(':')[0], 'verdict:' + ('holds' if what is None else 'FAILS'), last_tick_class(ns),
            'drop:' + ('not given' if drop is None else 'given, %s' % (
                'some event beyond the cut-off' if any(F(t) > F(max(ends or [0.0])) + F(drop) for t in event_times(ns))
                else 'no event beyond the cut-off')),
            'total_time:' + ('unset' if ns.total_time == 0 else 'last note end' if ns.total_time == max(ends or [0.0]) else
                             'stale (smaller)' if ns.total_time < max(ends or [0.0]) else 'larger')])
        rq = 'rt %s %s' % ('-' if drop is None else rat(drop), nswire.encode(ns))
        if r is not None:
            rt_reqs.append(rq)
            rt_real.append((kind, r))
        elif what and what.startswith(RAISED) and finding != 'F-C03-4':      # (F-C03-4: raised inside mido's encoder, outside the model)
            # the real round trip raised: the composed model (incl. the loader's tick guard) must predict that too
            rt_reqs.append(rq)
            rt_real.append((kind, 'err ' + what[len(RAISED):].split(':')[0]))
        if what:
            report(chk, what, {'sequence': nswire.encode(ns), 'drop': drop}, finding)
            if unknown_failures(chk) > 20:
                break
    # (d) CALL HISTORIES over every public function of the property (file variants included): same arguments twice,
    # result of call 1 edited in place before call 2, the same path written twice, arguments compared byte for byte
    valid = [(ns, drop) for kind, ns, drop, _ in seqs if kind == 'valid' and ns.notes]
    for i in range(0, min(len(valid) - 1, 2 * chk.n(150, 1500)), 2):
        hist_cases.append(('valid', valid[i][0], valid[i + 1][0], valid[i][1], valid[i + 1][1]))
    import os
    import tempfile
    tmpd = tempfile.mkdtemp(prefix='c03_hist_')
    path = os.path.join(tmpd, 'out.mid')      # ONE path for all histories of the run
    try:
        for kind, a, b, da, db in hist_cases:
            what, finding, tags = run_history(midi_io, a, b, da, db, path)
            chk.count('history', None, hist=['stream:' + kind.split(':')[0], 'verdict:' + ('holds' if what is None else 'FAILS')] + tags)
            if what:
                report(chk, what, {'history': 'writer twice / same path rewritten / re-read after caller edit', 'sequence': nswire.encode(a),
                                   'second': nswire.encode(b), 'drop': da, 'second_drop': db}, finding)
                if unknown_failures(chk) > 25:
                    break
    finally:
        for f in os.listdir(tmpd):
            os.unlink(os.path.join(tmpd, f))
        os.rmdir(tmpd)
    # the composed model (writer -> assumed transport contract -> reader) must predict the real byte-level round trip
    rt_model = chk.driver(EXE, rt_reqs)
    okk = [i for i, (_, r) in enumerate(rt_real) if not isinstance(r, str)]
    if okk:
        i = okk[-1]
        chk.sample({'request': rt_reqs[i][:260] + ' …', 'real_round_trip': repr(canon(rt_real[i][1]))[:300] + ' …',
                    'predicted_equal': rt_model[i].startswith('ok NS') and canon(nswire.decode(rt_model[i])) == canon(rt_real[i][1]),
                    'label': 'end-to-end monitor across third-party code (sampling, not proof)'})
    for req, (kind, r), line in zip(rt_reqs, rt_real, rt_model):
        chk.count('roundtrip-predicted', req[:3000], line.startswith('ok'), hist=['stream:' + kind.split(':')[0]])
        pred = canon(nswire.decode(line)) if line.startswith('ok NS') else line
        real = r if isinstance(r, str) else canon(r)
        if pred != real:
            chk.disagree('roundtrip-predicted (third-party contract, monitored)', {'request': req[:6000]},
                         repr(real)[:800], repr(pred)[:800])
    # every known finding of this property is replayed
    for e in chk.known:
        m = e.get('match', {})
        if 'sequence' in m or 'tempos' in m or 'groups' in m:
            ns = corpus_sequence(m)
            what, _, finding = oracle_case(midi_io, ns, srng)
            if what:
                report(chk, what, m, e['id'] if e.get('status') == 'open' else finding)


def replay(chk, obj):
    from note_seq import midi_io
    if obj.get('history'):
        import os
        import tempfile
        a, b = nswire.decode(obj['sequence']), nswire.decode(obj['second'])
        tmpd = tempfile.mkdtemp(prefix='c03_hist_')
        path = os.path.join(tmpd, 'out.mid')
        try:
            what, finding, tags = run_history(midi_io, a, b, obj.get('drop'), obj.get('second_drop'), path)
        finally:
            for f in os.listdir(tmpd):
                os.unlink(os.path.join(tmpd, f))
            os.rmdir(tmpd)
        print('replay C03 (call history: writer twice; first sequence written to a path and read back; second sequence written '
              'to the SAME path and read back; result edited by the caller; read again): steps passed: %s' % (tags or 'none'))
        if what and what.startswith(CORR):
            print('property statement holds on this history; NOT a pure function: %s' % what[len(CORR):])
            return 0
        print('PROPERTY FAILS: %s%s' % (what, ' [known finding %s]' % finding if finding else '') if what else 'property holds on this history')
        return 1 if what else 0
    if obj.get('kind') == 'no-failing-input-found':
        print('replay C03: no failing input was found; what no longer checks:', obj.get('no_longer_checks'))
        bad = 0
        for d in obj.get('correspondence_disagreements', []):
            req = d['input']['request']
            print('correspondence disagreement on stream %s: %s …' % (d['stream'], req[:120]))
            if req.startswith(('write', 'rt')) and ' NS ' in req:
                from harness.common import unrat
                tok = req.split(' ')[1]
                what, _, finding = oracle_case(midi_io, nswire.decode(req), chk.subrng('shuffle'),
                                               None if tok == '-' else float(unrat(tok)))
                print('  oracle on this input: %s' % (what or 'property holds'))
                bad += bool(what and not finding and not what.startswith(CORR))
        return 1 if bad else 0
    ns = corpus_sequence(obj)
    drop = obj.get('drop')
    print('replay C03: %d notes, %d tempos, ticks_per_quarter %d%s' % (len(ns.notes), len(ns.tempos), ns.ticks_per_quarter,
          '' if drop is None else ', drop_events_n_seconds_after_last_note=%r (last note ends at %r, total_time %r)' % (
              drop, max([n.end_time for n in ns.notes] or [0.0]), ns.total_time)))
    what, r, finding = oracle_case(midi_io, ns, chk.subrng('shuffle'), drop)
    if r is not None:
        print('returned: %d notes on instruments %s, tempos %s' % (
            len(r.notes), sorted({(n.instrument, n.program, n.is_drum) for n in r.notes}), [(t.time, t.qpm) for t in r.tempos]))
    if what and what.startswith(CORR):
        print('property statement holds on this input; %s' % what[len(CORR):])
        return 0
    print('PROPERTY FAILS: %s%s' % (what, ' [known finding %s]' % finding if finding else '') if what else 'property holds on this input')
    return 1 if what else 0
