"""C02 — extracting / splitting partitions the notes and carries state over (DESIGN 6.2)."""
import collections
import json
import math
from fractions import Fraction as F

from harness import nswire
from harness.common import rat, wl, unrat, corpus_cases

PID = 'C02'
FLT_PROOFS = 'NoteSeqVerif.Proofs.C02Float'
FLT = 'NoteSeqVerif.Props.C02_float'
# plain names are audited against the LAST module, the float theorems are (module, name) tuples
MODULES = [FLT_PROOFS, FLT, 'NoteSeqVerif.Props.C02']
EXE = 'drv_c02'
THEOREMS = [
    # the single-pass loop = closed form (one generic theorem, used by every container)
    'NSV.C02.run_eq_spec', 'NSV.C02.extract_eq_spec', 'NSV.C02.extract_pieces', 'NSV.C02.extract_piece',
    'NSV.C02.extract_length',
    # errors
    'NSV.C02.extract_errors', 'NSV.C02.extract_trichotomy', 'NSV.C02.extract_subsequence_spec',
    # notes
    'NSV.C02.extract_notes_spec', 'NSV.C02.clipR_fields', 'NSV.C02.extract_partition',
    'NSV.C02.extract_notes_nothing_invented',
    # state in effect
    'NSV.C02.state_pieces_spec', 'NSV.C02.extract_state_in_effect',
    'NSV.C02.extract_timeSigs_in_effect', 'NSV.C02.extract_keySigs_in_effect',
    'NSV.C02.extract_tempos_in_effect', 'NSV.C02.extract_chords_in_effect',
    'NSV.C02.extract_boundary_event_goes_to_later_piece',
    # pedal
    'NSV.C02.extract_pedal_in_effect', 'NSV.C02.extract_other_controls_and_bends_dropped',
    # beats, totals, info, frame
    'NSV.C02.extract_beats', 'NSV.C02.extract_texts', 'NSV.C02.extract_total_time',
    'NSV.C02.extract_subsequence_info', 'NSV.C02.extract_frame',
    # split vectors
    'NSV.C02.split_with_spec', 'NSV.C02.split_hop_list_times', 'NSV.C02.split_hop_times',
    'NSV.C02.hop_times_exact', 'NSV.C02.split_silence_times', 'NSV.C02.split_time_change_times',
    # trim
    'NSV.C02.trim_spec', 'NSV.C02.trim_errors',
] + [(FLT, 'NSV.C02.' + n) for n in (
    # for every `Rounding R` (hence rne53): order facts of shifted times, notes / beats / state events of a
    # float piece, state in effect at corresponding instants (generic, four kinds, pedal), which instants
    # correspond, the unconditional rounded-instant form
    'shift_order_float', 'round_sign_float', 'shift_close_float',
    'clipR_order_float', 'clipR_mono_float', 'extract_notes_float', 'extract_beats_float',
    'extract_state_times_float',
    'corresponding_instants_float', 'extract_state_in_effect_float',
    'extract_timeSigs_in_effect_float', 'extract_keySigs_in_effect_float',
    'extract_tempos_in_effect_float', 'extract_chords_in_effect_float', 'extract_pedal_in_effect_float',
    'extract_state_in_effect_rounded_float',
    # float hop sizes: loop = filter over the float candidates, what the candidates are, never raises
    'split_hop_times_of_mono', 'split_hop_times_float', 'split_hop_times_rne53', 'hop_times_float',
    'hop_candidates_float', 'split_hop_ok_float',
    # the silence test `start > R (last + gap)` is the exact statement except at the double the sum rounds up to; the
    # reordered `R (start - last) > gap` is a different decision in float64; the exceptional case occurs
    'silence_decision_float', 'silence_decision_float_of_ne', 'silence_reordered_differs_rne53',
    'silence_rounded_sum_case_rne53',
    # what is false in float64 (kernel-evaluated instance of the rne53 model)
    'in_effect_exact_instant_fails_rne53',
)] + [(FLT_PROOFS, 'NSV.C02.' + n) for n in (
    'hopTimesR_sorted', 'hopCand_strict', 'hopCand_lt_total', 'hopCand_lt_total_near', 'splitWith_ok',
    'specStateS_last_R', 'specPedals_in_effect_R', 'corr_exists',
    # float64 counterexamples: strict order of shifted times / of hop candidates, last candidate vs total
    'shift_collapse_rne53', 'hop_not_strict_rne53', 'hop_last_eq_total_rne53', 'hop_last_gt_total_rne53',
)]

CH, BEAT = 1, 2


def generate(chk):
    from note_seq import sequences_lib as sl, constants
    from note_seq.protobuf import music_pb2
    global CH, BEAT
    CH, BEAT = int(sl.CHORD_SYMBOL), int(sl.BEAT)
    txt = ('/-! GENERATED from /repo on every run by harness/c02.py — do not edit. -/\n'
           'namespace NSV.C02.Gen\n'
           'def PRESERVE : List Int := [%s]\n' % ', '.join(str(int(c)) for c in sl.DEFAULT_SUBSEQUENCE_PRESERVE_CONTROL_NUMBERS)
           + 'def CHORD_SYMBOL : Int := %d\n' % CH
           + 'def BEAT : Int := %d\n' % BEAT
           + 'def DEFAULT_QPM : Rat := (%s : Rat)\n' % str(F(constants.DEFAULT_QUARTERS_PER_MINUTE)).replace('/', ' / ')
           + 'end NSV.C02.Gen\n')
    chk.regenerate('NoteSeqVerif/Generated/C02.lean', txt)


# ----------------------------------------------------------------------------- generators
def gen_seq(rng, hist):
    """a coincidence-heavy sequence: every time comes from a small pool (NSGen), extra pedal and state events
    are added so that several instruments x controls carry state and events sit before the first cut."""
    g = nswire.NSGen(rng, max_notes=rng.choice([0, 2, 5, 8, 12]), pool_size=rng.choice([3, 5, 8]),
                     max_time=rng.choice([4.0, 8.0]), instruments=3, dyadic=rng.random() < 0.45)
    ns = g.make(sub=True, well_formed=rng.random() < 0.9)
    for _ in range(rng.choice([0, 0, 3, 6, 10])):
        cc = ns.control_changes.add()
        cc.time = g.t()
        cc.control_number = rng.choice([64, 64, 66, 67])
        cc.control_value = rng.choice([0, 127, 64, rng.randrange(128)])
        cc.instrument = rng.randrange(3)
        cc.program = rng.choice([0, 5])
    if rng.random() < 0.4:
        for _ in range(rng.choice([1, 2, 4])):
            k = rng.randrange(4)
            t = g.t()
            if k == 0:
                ns.tempos.add(time=t, qpm=rng.choice([120.0, 60.0, 90.5]))
            elif k == 1:
                ns.time_signatures.add(time=t, numerator=rng.choice([4, 3, 6]), denominator=rng.choice([4, 8]))
            elif k == 2:
                ns.key_signatures.add(time=t, key=rng.randrange(12), mode=rng.choice([0, 1]))
            else:
                ta = ns.text_annotations.add()
                ta.time, ta.annotation_type, ta.text = t, rng.choice([CH, BEAT]), rng.choice(['C', 'G7', 'Dm'])
    if ns.total_time == 0.0 and rng.random() < 0.85:
        ns.total_time = max(interesting_times(ns, g)) + rng.choice([0.0, 0.5, 1.0])
    if rng.random() < 0.03:
        ns.total_time = 0.0
    if ns.total_time == 0.0:
        hist.add('seq:total_time=0')
    if rng.random() < 0.06:
        # large common offset: every `time - a` and `total - a - piece_total` now rounds
        off = rng.choice([1000.3, 12345.678, 1e6 + 0.1])
        for n in ns.notes:
            n.start_time += off
            n.end_time += off
        for f in (ns.tempos, ns.time_signatures, ns.key_signatures, ns.text_annotations, ns.control_changes,
                  ns.pitch_bends, ns.section_annotations):
            for e in f:
                e.time += off
        ns.total_time += off
        g.pool = [t + off for t in g.pool]
        hist.add('seq:large-offset')
    q = rng.random()
    if q < 0.03:
        ns.quantization_info.steps_per_quarter = 4
        hist.add('seq:quantized')
    elif q < 0.05:
        ns.quantization_info.steps_per_second = 100
        hist.add('seq:quantized')
    elif q < 0.07:
        ns.quantization_info.steps_per_quarter = -1   # not quantized for is_quantized_sequence
    return ns, g


def interesting_times(ns, g):
    ts = list(g.pool) + [ns.total_time]
    ts += [n.start_time for n in ns.notes] + [n.end_time for n in ns.notes]
    for f in (ns.tempos, ns.time_signatures, ns.key_signatures, ns.text_annotations, ns.control_changes):
        ts += [e.time for e in f]
    return ts


def gen_splits(rng, ns, g, hist):
    ts = interesting_times(ns, g)
    inside = [t for t in ts if t < ns.total_time] or [0.0]
    k = rng.choice([0, 1, 2, 2, 3, 3, 4, 5, 7])
    m = rng.random()
    if m < 0.78:
        # a valid vector: sorted, all but the last before total_time
        k = max(k, 2)
        st = sorted(rng.choice(inside) if rng.random() < 0.85 else rng.uniform(0, ns.total_time) for _ in range(k - 1))
        last = rng.choice([t for t in ts if t >= st[-1]] + [ns.total_time, ns.total_time + 1.0, st[-1]])
        st.append(max(last, st[-1]))
    else:
        st = [rng.choice(ts) if rng.random() < 0.85 else rng.uniform(0, ns.total_time + 1) for _ in range(k)]
        if m < 0.86:
            st.sort()
        elif m < 0.93:
            hist.add('splits:shuffled')
        else:
            st.sort()
            st.append(ns.total_time + rng.choice([0.0, 0.5, 3.0]))
    if st and rng.random() < 0.25:
        st[0] = 0.0
        st.sort()
    if st and rng.random() < 0.08:
        i = rng.randrange(len(st))
        st[i] = nswire.nextafter_n(st[i], rng.choice([-1, 1]))   # one ulp off an event / note time
        st.sort()
        hist.add('splits:one-ulp-off')
    if len(st) >= 2 and rng.random() < 0.15:
        i = rng.randrange(len(st) - 1)
        st[i + 1] = st[i]
        st.sort()
        hist.add('splits:duplicate')
    return st


NONDYADIC_HOPS = [0.1, 0.1, 0.2, 0.3, 0.7, 1 / 3, 2 / 3, 0.05, 0.01, 1.1, 0.15, 0.6, 0.35, 0.9, 1.7, 0.025, 1e-3, 0.12]


def hop_multiple(rng, k, h):
    """one of the doubles a program may hold for "k * h": the single product, numpy.arange's h + (k-1)*h,
    the running sum h + h + ... + h, the decimal literal, and (rarely) one ulp beside them"""
    m = rng.random()
    if m < 0.4:
        x = k * h
    elif m < 0.65:
        x = h + (k - 1) * h
    elif m < 0.8:
        x = 0.0
        for _ in range(k):
            x += h
    else:
        x = round(k * h, 9)
    if rng.random() < 0.12:
        x = nswire.nextafter_n(x, rng.choice([-1, 1]))
    return x


def gen_long_hop(rng):
    """split_note_sequence with a NON-DYADIC float hop and 8-200 hops: total_time exactly on / one ulp around a
    hop multiple, notes starting / ending exactly on hop multiples (back-to-back chains meeting on a multiple),
    state events and beats on multiples, mostly skip_splits_inside_notes=True.  After a handful of hops the
    doubles h + i*h, (i+1)*h and h+h+...+h differ in the last bits, which is what this stream is about."""
    from note_seq.protobuf import music_pb2
    hist = {'hop:long-nondyadic'}
    k = rng.random()
    if k < 0.7:
        h = rng.choice(NONDYADIC_HOPS)
    elif k < 0.85:
        h = round(rng.uniform(0.01, 2.0), rng.choice([1, 2, 3])) or 0.1
    else:
        h = rng.uniform(0.01, 2.0)
    n = rng.choice([8, 9, 10, 11, 12, 16, 20, 25, 33, 40, 50, 64, 100, 150, 200])
    hist.add('hops:%s' % ('8-16' if n <= 16 else '17-64' if n <= 64 else '65-200'))
    ns = music_pb2.NoteSequence()
    ns.ticks_per_quarter = 220
    m = rng.random()
    if m < 0.55:
        T = hop_multiple(rng, n, h)
        hist.add('total:on-hop-multiple')
    elif m < 0.8:
        T = nswire.nextafter_n(hop_multiple(rng, n, h), rng.choice([-2, -1, 1, 2]))
        hist.add('total:ulps-off-hop-multiple')
    else:
        T = rng.uniform((n - 1) * h, n * h)
        hist.add('total:between-multiples')
    shape = rng.choice(['chain', 'chain', 'on-multiples', 'on-multiples', 'sparse', 'none'])
    hist.add('notes:' + shape)
    if shape == 'chain':
        # back-to-back notes meeting exactly on hop multiples; both notes of a junction share the same double
        k0 = rng.randrange(0, 3)
        cuts = [0.0 if k0 == 0 else hop_multiple(rng, k0, h)]
        kk = k0
        while kk < n:
            kk += rng.choice([1, 1, 2, 3, 5, 10, 25])
            if kk > n:
                break
            cuts.append(hop_multiple(rng, kk, h))
        for a, b in zip(cuts, cuts[1:]):
            if a <= b:
                ns.notes.add(pitch=rng.randrange(40, 90), velocity=90, start_time=a, end_time=b,
                             instrument=rng.randrange(2))
    elif shape in ('on-multiples', 'sparse'):
        for _ in range(rng.choice([1, 2, 3, 6, 12]) if shape == 'on-multiples' else rng.choice([1, 2])):
            k1 = rng.randrange(0, n)
            k2 = min(n, k1 + rng.choice([1, 1, 2, 3, 10]))
            a = 0.0 if k1 == 0 else hop_multiple(rng, k1, h)
            b = hop_multiple(rng, k2, h)
            if rng.random() < 0.2:
                a = rng.uniform(0, T)
            if rng.random() < 0.2:
                b = rng.uniform(a, max(a, T))
            if a > b:
                a, b = b, a
            ns.notes.add(pitch=rng.randrange(40, 90), velocity=rng.randrange(1, 128), start_time=a, end_time=b,
                         instrument=rng.randrange(2), program=rng.choice([0, 5]))
    for _ in range(rng.choice([0, 0, 1, 3])):
        t = hop_multiple(rng, rng.randrange(1, n + 1), h) if rng.random() < 0.8 else rng.uniform(0, T)
        q = rng.randrange(4)
        if q == 0:
            ns.tempos.add(time=t, qpm=rng.choice([60.0, 90.5, 120.0]))
        elif q == 1:
            ns.control_changes.add(time=t, control_number=64, control_value=rng.choice([0, 127]), instrument=rng.randrange(2))
        elif q == 2:
            ta = ns.text_annotations.add()
            ta.time, ta.annotation_type, ta.text = t, BEAT, ''
        else:
            ta = ns.text_annotations.add()
            ta.time, ta.annotation_type, ta.text = t, CH, rng.choice(['C', 'G7'])
    ns.total_time = T
    return ns, {'op': 'hop', 'hop': h, 'skip': rng.random() < 0.65}, hist


def gen_long_case(rng):
    """long inputs: 30-120 notes, dozens of state events and 10-40 split times (the short stream never has
    more than 12 notes / 7 cuts, so a carried index or a list that is consumed can go wrong unnoticed)."""
    hist = {'long'}
    g = nswire.NSGen(rng, max_notes=rng.choice([30, 60, 120]), pool_size=rng.choice([12, 25, 40]),
                     max_time=rng.choice([8.0, 30.0]), instruments=3, dyadic=rng.random() < 0.4)
    ns = g.make(sub=False)
    for _ in range(rng.choice([5, 15, 40])):
        q = rng.randrange(5)
        t = g.t()
        if q == 0:
            ns.tempos.add(time=t, qpm=rng.choice([120.0, 60.0, 90.5]))
        elif q == 1:
            ns.time_signatures.add(time=t, numerator=rng.choice([4, 3, 6]), denominator=rng.choice([4, 8]))
        elif q == 2:
            ns.key_signatures.add(time=t, key=rng.randrange(12))
        elif q == 3:
            ns.control_changes.add(time=t, control_number=rng.choice([64, 66, 67]), control_value=rng.choice([0, 127]),
                                   instrument=rng.randrange(3))
        else:
            ta = ns.text_annotations.add()
            ta.time, ta.annotation_type, ta.text = t, rng.choice([CH, BEAT]), rng.choice(['C', 'G7', 'Dm'])
    ts = interesting_times(ns, g)
    ns.total_time = max(ts) + rng.choice([0.0, 0.5])
    op = rng.choice(['ext', 'ext', 'hoplist', 'hop', 'tc', 'sil'])
    c = {'op': op}
    if op == 'ext':
        inside = [t for t in ts if t < ns.total_time] or [0.0]
        st = sorted(rng.choice(inside) for _ in range(rng.choice([10, 20, 40])))
        st.append(rng.choice([ns.total_time, ns.total_time + 1.0, st[-1]]))
        if rng.random() < 0.5:
            st[0] = 0.0
        c['splits'], c['preserve'] = st, None
    elif op == 'hoplist':
        c['skip'] = rng.random() < 0.5
        c['hops'] = [t for t in (rng.choice(ts) for _ in range(rng.choice([10, 25]))) if 0 < t < ns.total_time]
    elif op == 'hop':
        c['skip'] = rng.random() < 0.5
        c['hop'] = rng.choice([0.125, 0.25, 0.1, 0.3, 0.7, 1 / 3, ns.total_time / rng.choice([16, 50])])
    elif op == 'tc':
        c['skip'] = rng.random() < 0.5
    else:
        c['gap'] = rng.choice([0.0, 0.125, 0.1, 0.25])
    return ns, c, hist


def gen_silence_case(rng, ns, hist):
    """split_note_sequence_on_silence decides with `start > last_active_time + gap_seconds` (a float sum): onsets exactly
    on that sum, one ulp around it and on the decimal literal beside it, for decimal and dyadic gaps, 2-20 notes."""
    gap = rng.choice([0.1, 0.2, 0.3, 0.7, 1 / 3, 0.05, 1.1, 0.125, 0.5, 1.0, rng.uniform(0, 2)])
    del ns.notes[:]
    last = 0.0
    notes = []
    for _ in range(rng.choice([2, 3, 5, 8, 20])):
        m = rng.random()
        if m < 0.3:
            start = last + gap
        elif m < 0.5:
            start = nswire.nextafter_n(last + gap, rng.choice([-1, 1]))
        elif m < 0.6:
            start = round(last + gap, 6)
        elif m < 0.8:
            start = last + gap * rng.choice([0.5, 1.5, 2.0])
        else:
            start = rng.uniform(0, last + 2 * gap + 1)
        start = max(start, 0.0)
        end = start + rng.choice([0.0, 0.1, 0.25, 0.5, rng.uniform(0, 1)])
        notes.append((start, end))
        last = max(last, end)
    if rng.random() < 0.3:
        rng.shuffle(notes)
    for a, b in notes:
        ns.notes.add(pitch=rng.randrange(30, 100), velocity=rng.randrange(1, 128), start_time=a, end_time=b,
                     instrument=rng.randrange(3))
    ns.total_time = last if rng.random() < 0.7 else last + 0.5
    ns.ClearField('quantization_info')
    hist.add('sil:onset-on-last+gap')
    return ns, {'op': 'sil', 'gap': gap}, hist


def near_value(rng, x):
    """a double nearly equal to x: 1-3 ulps or 1e-12 .. 1e-6 (relative) away"""
    if rng.random() < 0.5:
        return nswire.nextafter_n(x, rng.choice([-3, -2, -1, 1, 2, 3]))
    y = x * (1 + rng.choice([-1, 1]) * rng.choice([1e-12, 1e-10, 1e-9, 1e-8, 1e-6]))
    return y if y != x else nswire.nextafter_n(x, 1)


def gen_case(rng):
    hist = set()
    ns, g = gen_seq(rng, hist)
    op = rng.choice(['ext', 'ext', 'ext', 'sub', 'trim', 'hoplist', 'hop', 'hop', 'tc', 'sil'])
    if op == 'tc' and rng.random() < 0.5:
        # "genuine change" is an equality test on qpm / (numerator, denominator): nearly equal tempos, tempos nearly
        # equal to the default 120, signatures that differ only in one component or are ratio-equal
        for _ in range(rng.choice([1, 2, 3])):
            base = rng.choice([120.0, 120.0, 60.0, 90.5] + [t.qpm for t in ns.tempos])
            ns.tempos.add(time=g.t(), qpm=rng.choice([base, near_value(rng, base), near_value(rng, base)]))
        if rng.random() < 0.5:
            ns.time_signatures.add(time=g.t(), numerator=rng.choice([4, 2, 8, 3, 6]), denominator=rng.choice([4, 2, 8]))
        hist.add('tc:nearly-equal-tempos')
    if op == 'sil' and rng.random() < 0.5 and len(ns.notes):
        return gen_silence_case(rng, ns, hist)
    ts = interesting_times(ns, g)
    c = {'op': op}
    if op == 'ext':
        c['splits'] = gen_splits(rng, ns, g, hist)
        c['preserve'] = None if rng.random() < 0.8 else rng.choice([[64], [7, 64], [], [66, 67, 1], (64, 66, 67)])
        if c['preserve'] is not None:
            c['preserve'] = list(c['preserve'])
    elif op in ('sub', 'trim'):
        a, b = rng.choice(ts), rng.choice(ts)
        if rng.random() < 0.85 and a > b:
            a, b = b, a
        if rng.random() < 0.3:
            a = 0.0
        c['a'], c['b'] = a, b
    elif op == 'hoplist':
        c['skip'] = rng.random() < 0.5
        hs = [rng.choice(ts) if rng.random() < 0.85 else rng.uniform(-0.5, ns.total_time + 1) for _ in range(rng.choice([0, 1, 2, 3, 5]))]
        if rng.random() < 0.7:   # mostly usable vectors: strictly inside (0, total)
            hs = [h for h in hs if 0 < h < ns.total_time]
        c['hops'] = hs
    elif op == 'hop':
        c['skip'] = rng.random() < 0.5
        T = ns.total_time
        k = rng.random()
        if k < 0.3:
            h = rng.choice([0.125, 0.25, 0.5, 0.75, 1.0, 1.5, 3.0])
            hist.add('hop:dyadic')
        elif k < 0.5 and T > 0:
            h = T / rng.choice([1, 2, 3, 4, 5, 7])           # divides total_time (up to rounding)
            hist.add('hop:divides-total')
        elif k < 0.7:
            h = rng.choice([0.1, 0.2, 0.3, 0.7, 1.1, 0.6, 1 / 3, 0.15])
            hist.add('hop:decimal')
            if T > 0 and rng.random() < 0.5:
                # total_time exactly on / one ulp around a multiple of the decimal hop (8-63 hops)
                T = ns.total_time = nswire.nextafter_n(rng.randrange(8, 64) * h, rng.choice([-1, 0, 0, 1]))
                hist.add('hop:decimal-total-on-multiple')
        elif k < 0.9:
            h = rng.uniform(0.15, 3.0)
            hist.add('hop:arbitrary')
        elif k < 0.95:
            h = T + rng.choice([0.0, 0.5])
            hist.add('hop:>=total')
        else:
            h = rng.choice([0.0, -0.5, -1.0])
            hist.add('hop:nonpositive')
        if h > 0 and T / h > 64:   # keep numpy.arange (and the number of pieces) small
            h = T / rng.choice([3, 7, 20, 64])
            hist.add('hop:scaled-to-total')
        c['hop'] = h
    elif op == 'tc':
        c['skip'] = rng.random() < 0.5
    elif op == 'sil':
        c['gap'] = rng.choice([0.0, 0.125, 0.25, 0.5, 1.0, 3.0, rng.uniform(0, 2)])
    return ns, c, hist


def request_line(ns, c):
    op = c['op']
    e = nswire.encode(ns)
    if op == 'ext':
        return 'ext %s %s %s' % (wl(rat(t) for t in c['splits']),
                                 '-1' if c['preserve'] is None else wl(c['preserve']), e)
    if op in ('sub', 'trim'):
        return '%s %s %s %s' % (op, rat(c['a']), rat(c['b']), e)
    if op == 'hoplist':
        return 'hoplist %d %s %s' % (c['skip'], wl(rat(t) for t in c['hops']), e)
    if op == 'hop':
        return 'hop %d %s %s' % (c['skip'], rat(c['hop']), e)
    if op == 'tc':
        return 'tc %d %s' % (c['skip'], e)
    if op == 'sil':
        return 'sil %s %s' % (rat(c['gap']), e)
    raise ValueError(op)


class ArgumentModified(Exception):
    """the implementation changed a Python list it was given (split times / hop list / preserve list)"""


def call_impl(sl, ns, c):
    """the real function for one case (raises what the real code raises).  Python lists handed over are compared
    with what they held before, also when the call raises."""
    op = c['op']
    if op == 'ext':
        st, pr = list(c['splits']), None if c['preserve'] is None else list(c['preserve'])
        try:
            return sl._extract_subsequences(ns, st, pr)
        finally:
            if list(map(repr, st)) != list(map(repr, c['splits'])) or (pr is not None and pr != list(c['preserve'])):
                raise ArgumentModified('split times / preserve list')
    if op == 'hoplist':
        hs = list(c['hops'])
        try:
            return sl.split_note_sequence(ns, hs, c['skip'])
        finally:
            if list(map(repr, hs)) != list(map(repr, c['hops'])):
                raise ArgumentModified('hop list')
    if op == 'sub':
        return sl.extract_subsequence(ns, c['a'], c['b'])
    if op == 'trim':
        return sl.trim_note_sequence(ns, c['a'], c['b'])
    if op == 'hop':
        return sl.split_note_sequence(ns, c['hop'], c['skip'])
    if op == 'tc':
        return sl.split_note_sequence_on_time_changes(ns, c['skip'])
    if op == 'sil':
        return sl.split_note_sequence_on_silence(ns, c['gap'])
    raise ValueError(op)


# ----------------------------------------------------------------------------- oracle
EPS = F(1, 2**36)


def close(x, y, scale=1):
    """float result `x` equals the exact value `y` up to a few roundings."""
    return abs(F(x) - y) <= F(1, 2**48) * max(abs(y), scale, 1)


def in_effect(events, t, val):
    """value of the last event, in stable time order, with time <= t (None if there is none)."""
    cur = None
    for e in sorted(events, key=lambda e: e.time):
        if F(e.time) <= t:
            cur = val(e)
    return cur


def strip_times(msg, fields):
    c = type(msg)()
    c.CopyFrom(msg)
    for f in fields:
        c.ClearField(f)
    return c.SerializeToString(deterministic=True)


def check_pieces(ns, splits, pieces, preserve):
    """the statement about the pieces cut at `splits` (exact arithmetic, from the property text)."""
    if len(pieces) != len(splits) - 1:
        return 'expected %d pieces, got %d' % (len(splits) - 1, len(pieces))
    srt = sorted(ns.notes, key=lambda n: n.start_time)
    seen = collections.Counter()
    T = F(ns.total_time)
    for i, p in enumerate(pieces):
        a, b = F(splits[i]), F(splits[i + 1])
        exp = [n for n in srt if a <= F(n.start_time) < b]
        got = list(p.notes)
        if len(exp) != len(got):
            return 'piece %d: %d notes, expected the %d starting in [%s,%s)' % (i, len(got), len(exp), float(a), float(b))
        for e, g in zip(exp, got):
            if strip_times(e, ['start_time', 'end_time']) != strip_times(g, ['start_time', 'end_time']):
                return 'piece %d: a note attribute other than the times changed (or the order is not by start)' % i
            if not close(g.start_time, F(e.start_time) - a, abs(a)):
                return 'piece %d: note start %r, expected %r' % (i, g.start_time, float(F(e.start_time) - a))
            if not close(g.end_time, min(F(e.end_time), b) - a, abs(a)):
                return 'piece %d: note end %r, expected %r' % (i, g.end_time, float(min(F(e.end_time), b) - a))
            seen[e.SerializeToString(deterministic=True)] += 1
        tot = max([g.end_time for g in got] or [0.0])
        if p.total_time != tot:
            return 'piece %d: total_time %r is not its last note end %r' % (i, p.total_time, tot)
        if not p.HasField('subsequence_info') or F(p.subsequence_info.start_time_offset) != a:
            return 'piece %d: subsequence_info.start_time_offset %r != %r' % (i, p.subsequence_info.start_time_offset, float(a))
        if not close(p.subsequence_info.end_time_offset, T - a - F(p.total_time), max(abs(a), abs(T))):
            return 'piece %d: subsequence_info.end_time_offset %r != %r' % (i, p.subsequence_info.end_time_offset, float(T - a - F(p.total_time)))
        L = b - a
        kinds = [
            ('tempo', list(ns.tempos), list(p.tempos), lambda e: e.qpm),
            ('time signature', list(ns.time_signatures), list(p.time_signatures), lambda e: (e.numerator, e.denominator)),
            ('key signature', list(ns.key_signatures), list(p.key_signatures), lambda e: (e.key, e.mode)),
            ('chord', [t for t in ns.text_annotations if t.annotation_type == CH],
             [t for t in p.text_annotations if t.annotation_type == CH], lambda e: e.text),
        ]
        keys = sorted({(c.instrument, c.control_number) for c in ns.control_changes if c.control_number in preserve})
        for (inst, cn) in keys:
            kinds.append(('pedal inst=%d cc=%d' % (inst, cn),
                          [c for c in ns.control_changes if (c.instrument, c.control_number) == (inst, cn)],
                          [c for c in p.control_changes if (c.instrument, c.control_number) == (inst, cn)],
                          lambda e: (e.control_value, e.program, e.is_drum)))
        for name, orig, new, val in kinds:
            ot = [F(e.time) for e in orig]
            nt = [F(e.time) for e in new]
            if any(t < 0 or t >= L for t in nt) and L > 0:
                return 'piece %d: a %s event lies outside the piece' % (i, name)
            times = sorted(set([F(0)] + nt + [t - a for t in ot if a <= t < b]))
            probes = set(times)
            for x, y in zip(times, times[1:]):
                probes.add((x + y) / 2)
            if times:
                probes.add((times[-1] + L) / 2)
            for tau in sorted(probes):
                if not 0 <= tau < L:
                    continue
                # instants that rounding of `time - a` may have moved (relative 2^-36) are not comparable
                tol = EPS * max(1, abs(a) + tau)
                if any(0 < abs(t - (a + tau)) < tol for t in ot) or any(0 < abs(u - tau) < tol for u in nt):
                    continue
                x, y = in_effect(new, tau, val), in_effect(orig, a + tau, val)
                if x != y:
                    return 'piece %d: %s in effect at %r is %r, in the original at %r it is %r' % (
                        i, name, float(tau), x, float(a + tau), y)
        if any(c.control_number not in preserve for c in p.control_changes):
            return 'piece %d: a control change outside the preserve list was kept' % i
        if len(p.pitch_bends):
            return 'piece %d: pitch bends kept' % i
        expb = [t for t in sorted(ns.text_annotations, key=lambda t: t.time)
                if t.annotation_type == BEAT and a <= F(t.time) < b]
        gotb = [t for t in p.text_annotations if t.annotation_type == BEAT]
        if len(expb) != len(gotb) or any(not close(g.time, F(e.time) - a, abs(a)) or strip_times(e, ['time']) != strip_times(g, ['time'])
                                         for e, g in zip(expb, gotb)):
            return 'piece %d: beat annotations %r, expected those in [%s,%s) shifted' % (i, [g.time for g in gotb], float(a), float(b))
        if any(t.annotation_type not in (CH, BEAT) for t in p.text_annotations):
            return 'piece %d: a text annotation that is neither chord nor beat was kept' % i
        # everything the operation does not talk about is intact
        rest_fields = ['notes', 'tempos', 'time_signatures', 'key_signatures', 'text_annotations', 'control_changes',
                       'pitch_bends', 'total_time', 'subsequence_info']
        if strip_times(p, rest_fields) != strip_times(ns, rest_fields):
            return 'piece %d: a field other than the sliced ones differs from the original' % i
    lo, hi = F(splits[0]), F(splits[-1])
    want = collections.Counter(n.SerializeToString(deterministic=True) for n in ns.notes if lo <= F(n.start_time) < hi)
    if seen != want:
        return 'notes lost or invented: multiset of notes in the pieces != notes starting in [%s,%s)' % (float(lo), float(hi))
    return None


def is_double(x):
    """the rational x is a binary64 value"""
    return F(float(x)) == x


def crossing(ns, t):
    return any(F(n.start_time) < t < F(n.end_time) for n in ns.notes)


def expected_split_vector(ns, c):
    """the split vector the statement prescribes (exact arithmetic); returns (vector | None, fuzzy)
    where fuzzy = True means candidate times are float results compared with tolerance."""
    op, T = c['op'], F(ns.total_time)
    if op == 'hoplist':
        cands = sorted(F(h) for h in c['hops'])
        exp = [F(0)] + [t for t in cands if not (c['skip'] and crossing(ns, t))]
    elif op == 'hop':
        h = F(c['hop'])
        if h <= 0:
            return None, False
        cands, k = [], 1
        while k * h < T:
            cands.append(k * h)
            k += 1
        # unambiguous only: total_time must not sit within rounding of a hop multiple, and with
        # skip_splits_inside_notes no note boundary within rounding of a candidate.  An EXACT coincidence is decided
        # only when the double the code can hold for the multiple is the multiple itself: (m-1)*h and m*h both doubles
        # (then h + (m-1)*h and (total - h) / h are exact).  Otherwise the double beside a representable 14*h can be
        # h + 13*h = 14*h - 1ulp, and a note ending exactly on 14*h is "still sounding" there.
        def exact(m):
            return is_double((m - 1) * h) and is_double(m * h)
        if any(abs(m * h - T) <= EPS * max(T, 1) and not (m * h == T and exact(m)) for m in (k - 1, k)):
            return None, True
        if c['skip'] and any(abs(F(x) - t) <= EPS * max(t, 1) and not (F(x) == t and exact(i + 1))
                             for i, t in enumerate(cands) for n in ns.notes for x in (n.start_time, n.end_time)):
            return None, True
        exp = [F(0)] + [t for t in cands if not (c['skip'] and crossing(ns, t))]
    elif op == 'tc':
        evs = sorted([('ts', F(t.time), (t.numerator, t.denominator)) for t in ns.time_signatures] +
                     [('tp', F(t.time), t.qpm) for t in ns.tempos], key=lambda e: e[1])
        from note_seq import constants
        cur = {'ts': (4, 4), 'tp': constants.DEFAULT_QUARTERS_PER_MINUTE}
        exp = [F(0)]
        for kind, t, v in evs:
            if t >= T or v == cur[kind]:
                continue
            if t > exp[-1] and not (c['skip'] and crossing(ns, t)):
                exp.append(t)
            cur[kind] = v
    elif op == 'sil':
        # "the onsets after more than gap_seconds of silence", in exact arithmetic on the doubles.  `last` is 0 or a note
        # end, so last + gap is one real sum of two doubles; whoever holds it in a double rounds it once.  The only onset
        # that rounding can hide is the double immediately above an unrepresentable sum (silence_decision_float: a test
        # `start > fl(last + gap)` is the exact statement except when start is the double the sum rounds up to); there,
        # and only there, the split vector is left undecided.
        exp, last, gap = [F(0)], F(0), F(c['gap'])
        for n in sorted(ns.notes, key=lambda n: n.start_time):
            S, st = last + gap, F(n.start_time)
            if not is_double(S):
                f = float(S)   # int / int true division: correctly rounded
                if st == F(f if F(f) > S else math.nextafter(f, math.inf)):
                    return None, True
            if st > S:
                exp.append(st)
            last = max(last, F(n.end_time))
    else:
        raise ValueError(op)
    if T > exp[-1]:
        exp.append(T)
    return exp, op == 'hop'


HOP_TOL = F(1, 2**51)


def check_hop_points(ns, c, starts):
    """"split points are exactly the hop multiples (never inside a sounding note when skip_splits_inside_notes is set)",
    read for doubles: a hop multiple k*h held in a double after at most two roundings is within 2^-51 (relative) of the
    real k*h.  Every piece start must be such a multiple, with increasing k and not past total_time; every multiple
    clearly before total_time must be a split point unless (skip) a note may sound across it; no split point lies
    clearly inside a sounding note.  Whatever depends on the last bits (a note boundary or total_time within 2^-51 of
    the multiple) is left undecided here - the bit-exact correspondence decides it."""
    h, T = F(c['hop']), F(ns.total_time)
    if not starts:
        return None
    if F(starts[0]) != 0:
        return 'the first piece starts at %r, not at 0' % starts[0]
    ks = []
    for s in starts[1:]:
        k = max(1, round(F(s) / h))
        if abs(F(s) - k * h) > HOP_TOL * k * h:
            return 'split point %r is not a hop multiple: nearest is %d * %r = %r (off by %.3g relative)' % (
                s, k, c['hop'], float(k * h), float(abs(F(s) - k * h) / (k * h)))
        if F(s) > T * (1 + HOP_TOL):
            return 'split point %r lies after total_time %r' % (s, ns.total_time)
        ks.append(k)
    if any(x >= y for x, y in zip(ks, ks[1:])):
        return 'hop multiples repeated / out of order in the split points %r' % (starts,)
    if T / h > 100000:
        return None
    have = set(ks)
    spans = [(F(n.start_time), F(n.end_time)) for n in ns.notes]
    k = 1
    while k * h < T * (1 - 2 * HOP_TOL):
        m = k * h
        lo, hi = m * (1 - HOP_TOL), m * (1 + HOP_TOL)
        if k not in have and not (c['skip'] and any(a < hi and b > lo for a, b in spans)):
            return 'no split at the hop multiple %d * %r = %r (total_time %r, no note sounds across it)' % (
                k, c['hop'], float(m), ns.total_time)
        if k in have and c['skip'] and any(a < lo and b > hi for a, b in spans):
            return 'split at %r inside a sounding note although skip_splits_inside_notes is set' % float(m)
        k += 1
    return None


class ImplStuck(Exception):
    """the implementation did not return (time / memory guard of `guarded`)"""


def guarded(f, *a, limit=30.0, mem_mb=1500):
    """run f(*a) under an interval timer: raise ImplStuck inside it when it has run for `limit` seconds or the process
    has grown by `mem_mb` (a changed loop that never terminates must not take the machine down with it)."""
    import resource
    import signal
    import time
    t0, rss0 = time.time(), resource.getrusage(resource.RUSAGE_SELF).ru_maxrss

    def on_tick(sig, frame):
        if time.time() - t0 > limit or resource.getrusage(resource.RUSAGE_SELF).ru_maxrss - rss0 > mem_mb * 1024:
            raise ImplStuck('no result after %.1fs / memory growth' % (time.time() - t0))
    old = signal.signal(signal.SIGALRM, on_tick)
    signal.setitimer(signal.ITIMER_REAL, 0.1, 0.1)
    try:
        return f(*a)
    finally:
        signal.setitimer(signal.ITIMER_REAL, 0)
        signal.signal(signal.SIGALRM, old)


def case_limit(c):
    """seconds an implementation call may take (cases outside the quantifier get very little)"""
    return 0.5 if c['op'] == 'hop' and c['hop'] <= 0 else 30.0


def oracle_case(sl, ns, c):
    """evaluate the property statement on the real code for one case; returns what fails or None."""
    before = ns.SerializeToString(deterministic=True)
    try:
        out, err = guarded(call_impl, sl, ns, c, limit=case_limit(c)), None
    except Exception as e:  # pylint: disable=broad-except
        out, err = None, e
    if ns.SerializeToString(deterministic=True) != before:
        return 'input modified' + (' (by a call that raised %s)' % type(err).__name__ if err is not None else '')
    if isinstance(err, ArgumentModified):
        return 'a Python list argument was modified in place: %s' % err
    # a short history: results are new objects (not the argument, no piece twice); spoiling them in place touches
    # neither the input nor the answer of a second call with the same arguments
    def ser(o):
        return None if o is None else [p.SerializeToString(deterministic=True) for p in o] if isinstance(o, list) else o.SerializeToString(deterministic=True)
    pieces = out if isinstance(out, list) else [] if out is None else [out]
    if any(p is ns for p in pieces) or len({id(p) for p in pieces}) != len(pieces):
        return 'a result is the argument object itself / the same object twice, not a copy'
    first = ser(out)
    keep = []
    for p in pieces:
        q = type(p)()
        q.CopyFrom(p)
        keep.append(q)
        del p.notes[:]
        del p.tempos[:]
        del p.control_changes[:]
        p.total_time = -1.0
        p.ClearField('subsequence_info')
    if ns.SerializeToString(deterministic=True) != before:
        return 'modifying a result in place changed the input (shared sub-messages)'
    try:
        out2, err2 = guarded(call_impl, sl, ns, c, limit=case_limit(c)), None
    except Exception as e:  # pylint: disable=broad-except
        out2, err2 = None, e
    if ns.SerializeToString(deterministic=True) != before:
        return 'input modified by the second call'
    if type(err2) is not type(err) or ser(out2) != first:
        if not isinstance(err, ImplStuck) and not isinstance(err2, ImplStuck):
            return 'second call with the same arguments gives a different answer (%s, then %s)' % (
                type(err).__name__ if err is not None else 'a result', type(err2).__name__ if err2 is not None else 'another result')
    pieces2 = out2 if isinstance(out2, list) else [] if out2 is None else [out2]
    if any(p is q for p in pieces2 for q in pieces + [ns]):
        return 'second call returned an object it returned or received before'
    if err2 is None and err is None:
        out = out2
    elif out is not None:
        out = keep if isinstance(out, list) else keep[0]
    op = c['op']
    quant = ns.quantization_info.steps_per_quarter > 0 or ns.quantization_info.steps_per_second > 0
    T = F(ns.total_time)
    ename = type(err).__name__ if err is not None else 'a result'
    if op in ('ext', 'sub'):
        splits = list(c['splits']) if op == 'ext' else [c['a'], c['b']]
        preserve = (64, 66, 67) if c.get('preserve') is None else tuple(c['preserve'])
        if quant:
            return None if isinstance(err, sl.QuantizationStatusError) else 'quantized input: expected QuantizationStatusError, got %s' % ename
        bad = (len(splits) < 2 or any(F(x) > F(y) for x, y in zip(splits, splits[1:]))
               or any(F(t) >= T for t in splits[:-1]))
        if bad:
            return None if isinstance(err, ValueError) else 'fewer than 2 / unsorted / past-the-end split times: expected ValueError, got %s' % ename
        if err is not None:
            return 'unexpected %s on valid split times' % ename
        return check_pieces(ns, splits, out if op == 'ext' else [out], preserve)
    if op == 'trim':
        if quant:
            return None if isinstance(err, sl.QuantizationStatusError) else 'quantized input: expected QuantizationStatusError, got %s' % ename
        if err is not None:
            return 'unexpected %s' % ename
        a, b = F(c['a']), F(c['b'])
        exp = [n for n in ns.notes if a <= F(n.start_time) < b]
        if len(exp) != len(out.notes):
            return 'trim: %d notes kept, expected %d' % (len(out.notes), len(exp))
        for e, g in zip(exp, out.notes):
            if strip_times(e, ['end_time']) != strip_times(g, ['end_time']) or F(g.end_time) != min(F(e.end_time), b):
                return 'trim: note changed other than clipping its end'
        if F(out.total_time) != min(T, b):
            return 'trim: total_time %r != min(total_time, end)' % out.total_time
        if strip_times(out, ['notes', 'total_time']) != strip_times(ns, ['notes', 'total_time']):
            return 'trim: another field changed'
        return None
    # ---- the split family
    if op == 'hop' and F(c['hop']) == 0:
        return None   # outside the quantifier (hop sizes are positive); ZeroDivisionError from numpy.arange
    if op == 'hop' and F(c['hop']) > 0 and not quant:
        if err is not None:
            return 'unexpected %s for a positive hop size' % ename
        r = check_hop_points(ns, c, [p.subsequence_info.start_time_offset for p in out])
        if r:
            return r
    exp, fuzzy = expected_split_vector(ns, c)
    if exp is None:
        if op == 'hop' and F(c['hop']) < 0:
            return None
        # ambiguous within float rounding: judge the pieces against the offsets they report
        if err is not None or quant:
            return None
        starts = [p.subsequence_info.start_time_offset for p in out]
        if not starts or any(n.start_time >= ns.total_time for n in ns.notes):
            return None
        return check_pieces(ns, starts + [ns.total_time], out, (64, 66, 67))
    if len(exp) < 2:
        if err is None and out == []:
            return None
        return 'expected no pieces (total_time is 0), got %s' % ename
    if quant:
        return None if isinstance(err, sl.QuantizationStatusError) else 'quantized input: expected QuantizationStatusError, got %s' % ename
    bad = any(x > y for x, y in zip(exp, exp[1:])) or any(t >= T for t in exp[:-1])
    if bad:   # e.g. a listed split time <= 0 or >= total_time: documented ValueError of the extractor
        return None if isinstance(err, ValueError) else 'split times outside (0, total_time): expected ValueError, got %s' % ename
    if err is not None:
        return 'unexpected %s' % ename
    starts = [p.subsequence_info.start_time_offset for p in out]
    if len(starts) != len(exp) - 1 or any((not close(s, e)) if fuzzy else F(s) != e for s, e in zip(starts, exp)):
        return 'split points %r, expected %r' % (starts, [float(e) for e in exp[:-1]])
    return check_pieces(ns, starts + [float(exp[-1])], out, (64, 66, 67))


# ----------------------------------------------------------------------------- coverage classes
def coincidences(ns, c, impl_line):
    h = set()
    op = c['op']
    if impl_line.startswith('err'):
        h.add('result:' + impl_line)
        if op == 'ext' and impl_line == 'err ValueError':
            st = c['splits']
            h.add('ValueError:too-few' if len(st) < 2 else 'ValueError:unsorted' if any(x > y for x, y in zip(st, st[1:]))
                  else 'ValueError:past-the-end')
        return h
    if op == 'ext':
        st = c['splits']
    elif op == 'sub':
        st = [c['a'], c['b']]
    elif op == 'trim':
        st = [c['a'], c['b']]
    else:
        toks = impl_line.split(' | ') if impl_line.startswith('okl') and not impl_line.startswith('okl 0') else []
        st = []
        for k, t in enumerate(toks):
            w = t.split()
            i = w.index('NS')
            st.append(float(unrat(w[i + 6])))
        st.append(ns.total_time)
    h.add('pieces:%s' % (min(len(st) - 1, 5) if len(st) > 1 else 0))
    S = set(st)
    inner = set(st[1:])
    if any(n.start_time in S for n in ns.notes):
        h.add('coincide:note-start=split')
    if any(n.end_time in S for n in ns.notes):
        h.add('coincide:note-end=split')
    if any(n.start_time < t < n.end_time for n in ns.notes for t in inner):
        h.add('coincide:note-cut-by-split')
    for name, f in (('tempo', ns.tempos), ('timesig', ns.time_signatures), ('keysig', ns.key_signatures),
                    ('text', ns.text_annotations), ('cc', ns.control_changes)):
        if any(e.time in S for e in f):
            h.add('coincide:%s=split' % name)
        if st and any(e.time < st[0] for e in f):
            h.add('state-before-first-cut:%s' % name)
        if st and any(e.time > st[-1] for e in f):
            h.add('state-after-last-cut:%s' % name)
    if ns.total_time in S:
        h.add('coincide:total_time=split')
    if len(st) != len(S):
        h.add('coincide:duplicate-split')
    ped = {(x.instrument, x.control_number) for x in ns.control_changes if x.control_number in (64, 66, 67)}
    if len({k[0] for k in ped}) > 1:
        h.add('pedal:several-instruments')
    if len({k[1] for k in ped}) > 1:
        h.add('pedal:several-controls')
    if any(x.control_number not in (64, 66, 67) for x in ns.control_changes):
        h.add('cc:unrelated-controller')
    return h


# ----------------------------------------------------------------------------- run
def case_obj(ns, c):
    o = dict(c)
    o['sequence'] = nswire.encode(ns)
    for k in ('a', 'b', 'hop', 'gap'):
        if k in o:
            o[k] = rat(o[k])
    for k in ('splits', 'hops'):
        if k in o:
            o[k] = [rat(t) for t in o[k]]
    return o


def obj_case(o):
    c = {k: v for k, v in o.items() if k != 'sequence'}
    for k in ('a', 'b', 'hop', 'gap'):
        if k in c:
            c[k] = float(unrat(c[k]))
    for k in ('splits', 'hops'):
        if k in c:
            c[k] = [float(unrat(t)) for t in c[k]]
    return nswire.decode(o['sequence']), c


def directed_cases():
    """hand-written coincidence cases (always run first)."""
    from note_seq.protobuf import music_pb2
    out = []
    ns = music_pb2.NoteSequence()
    for (p, s, e, i) in [(60, 0.0, 1.0, 0), (62, 1.0, 2.0, 0), (64, 1.5, 3.5, 1), (65, 2.0, 2.0, 1), (67, 3.0, 4.0, 0)]:
        ns.notes.add(pitch=p, velocity=80, start_time=s, end_time=e, instrument=i)
    ns.total_time = 4.0
    ns.tempos.add(time=0.0, qpm=120.0)
    ns.tempos.add(time=2.0, qpm=60.0)
    ns.time_signatures.add(time=0.5, numerator=3, denominator=4)
    ns.time_signatures.add(time=3.0, numerator=4, denominator=4)
    ns.key_signatures.add(time=1.0, key=2)
    for t, txt, k in [(0.0, 'C', CH), (2.0, 'G7', CH), (1.0, '', BEAT), (2.0, '', BEAT), (3.0, 'x', 0)]:
        ta = ns.text_annotations.add()
        ta.time, ta.text, ta.annotation_type = t, txt, k
    for t, num, v, i in [(0.5, 64, 127, 0), (1.0, 64, 0, 0), (1.0, 64, 127, 1), (2.0, 66, 127, 0), (2.5, 7, 100, 0), (3.0, 67, 5, 1)]:
        ns.control_changes.add(time=t, control_number=num, control_value=v, instrument=i)
    ns.pitch_bends.add(time=1.0, bend=100)
    out.append((ns, {'op': 'ext', 'splits': [0.0, 1.0, 2.0, 3.0, 4.0], 'preserve': None}))
    out.append((ns, {'op': 'ext', 'splits': [1.0, 2.0, 2.0, 3.5], 'preserve': None}))
    out.append((ns, {'op': 'ext', 'splits': [1.0, 5.0], 'preserve': [64]}))
    out.append((ns, {'op': 'ext', 'splits': [2.0, 1.0], 'preserve': None}))
    out.append((ns, {'op': 'ext', 'splits': [1.0, 4.0, 5.0], 'preserve': None}))
    out.append((ns, {'op': 'ext', 'splits': [3.0], 'preserve': None}))
    out.append((ns, {'op': 'sub', 'a': 1.0, 'b': 3.0}))
    out.append((ns, {'op': 'trim', 'a': 1.0, 'b': 3.0}))
    out.append((ns, {'op': 'hop', 'hop': 1.0, 'skip': False}))
    out.append((ns, {'op': 'hop', 'hop': 1.0, 'skip': True}))
    out.append((ns, {'op': 'hop', 'hop': 0.3, 'skip': False}))
    out.append((ns, {'op': 'hoplist', 'hops': [3.0, 1.0, 2.0], 'skip': True}))
    out.append((ns, {'op': 'tc', 'skip': False}))
    out.append((ns, {'op': 'tc', 'skip': True}))
    out.append((ns, {'op': 'sil', 'gap': 0.0}))
    out.append((ns, {'op': 'sil', 'gap': 0.5}))
    # first and last legal value of every parameter / field: the empty sequence through every operation; pitch 0 / 127,
    # velocity 1 / 127, zero-length notes sitting exactly on the cuts, cuts at 0 and at total_time, a hop equal to
    # total_time / half of it, gap 0 with touching notes, gap exactly the silence and one ulp either side of it
    e = music_pb2.NoteSequence()
    x = music_pb2.NoteSequence()
    for (p, v, s, t) in [(0, 1, 0.0, 0.0), (127, 127, 0.0, 1.0), (0, 127, 1.0, 1.0), (127, 1, 1.0, 2.0), (60, 64, 2.0, 2.0),
                         (61, 64, 3.5, 4.0)]:
        x.notes.add(pitch=p, velocity=v, start_time=s, end_time=t)
    x.total_time = 4.0
    for q in (e, x):
        out.append((q, {'op': 'ext', 'splits': [0.0, 4.0], 'preserve': None}))
        out.append((q, {'op': 'ext', 'splits': [0.0, 0.0, 1.0, 2.0, 4.0, 4.0], 'preserve': []}))
        out.append((q, {'op': 'sub', 'a': 0.0, 'b': 4.0}))
        out.append((q, {'op': 'sub', 'a': 2.0, 'b': 2.0}))
        out.append((q, {'op': 'trim', 'a': 0.0, 'b': 4.0}))
        out.append((q, {'op': 'trim', 'a': 1.0, 'b': 1.0}))
        for skip in (False, True):
            out.append((q, {'op': 'hop', 'hop': 4.0, 'skip': skip}))
            out.append((q, {'op': 'hop', 'hop': 2.0, 'skip': skip}))
            out.append((q, {'op': 'hop', 'hop': math.nextafter(4.0, 0.0), 'skip': skip}))
            out.append((q, {'op': 'hoplist', 'hops': [], 'skip': skip}))
            out.append((q, {'op': 'hoplist', 'hops': [1.0, 1.0, 2.0], 'skip': skip}))
            out.append((q, {'op': 'tc', 'skip': skip}))
        for gap in (0.0, 5e-324, 1.5, math.nextafter(1.5, 0.0), math.nextafter(1.5, 2.0), 4.0):
            out.append((q, {'op': 'sil', 'gap': gap}))
    return out


def run(chk):
    from note_seq import sequences_lib as sl
    generate(chk)
    chk.prove(MODULES, THEOREMS, [EXE], extra_trusted=[
        'rne53 as a model of IEEE-754 binary64 arithmetic (validated bit-exactly by every request of this run)',
        'numpy.arange(h, total, h) modelled as length ceil((total-h)/h) in floats, element i = h + i*h (validated bit-exactly)',
        'protobuf CopyFrom/extend/deepcopy semantics; CPython sorted() stability and dict insertion order'])
    chk.rule = ('generated unquantized (and a few quantized) sequences with every repeated field populated, times from a small pool so '
                'events coincide with split times, note starts/ends, each other and total_time; operations: _extract_subsequences '
                '(sorted / unsorted / duplicate / past-the-end split vectors, optional preserve list), extract_subsequence, '
                'trim_note_sequence, split_note_sequence (list and float hop), ..._on_time_changes, ..._on_silence; '
                'a long stream: non-dyadic float hops (0.1, 0.2, 0.3, 0.7, 1/3, ...) with 8-200 hops, total_time exactly on / 1-2 ulps '
                'around a hop multiple, note chains meeting exactly on hop multiples (each multiple as k*h, h+(k-1)*h, the running sum '
                'or the decimal literal), mostly skip_splits_inside_notes; 30-120-note sequences with 10-40 cuts; nearly equal tempos '
                '(1-3 ulps / 1e-12..1e-6 relative) for the genuine-change test; onsets exactly on / one ulp around last_active+gap; always-run extremes: empty sequence and pitch/velocity range ends through every operation, zero-length notes on the cuts, hop = total_time, gap 0 / exactly the silence / one ulp beside it; '
                'non-trivial = distinct request whose result is a value or a documented error')
    rng = chk.subrng('corr')
    cases = [(ns, c, {'directed'}) for ns, c in directed_cases()]
    for name, o in corpus_cases(PID):
        ns, c = obj_case(o)
        cases.append((ns, c, {'corpus'}))
    for _ in range(chk.n(6000, 120000)):
        cases.append(gen_case(rng))
    rl = chk.subrng('long')
    for _ in range(chk.n(260, 5000)):
        cases.append(gen_long_hop(rl))
    for _ in range(chk.n(120, 2500)):
        cases.append(gen_long_case(rl))
    reqs = [request_line(ns, c) for ns, c, _ in cases]
    impl = []
    stuck = set()
    for i, (ns, c, _) in enumerate(cases):
        before = ns.SerializeToString(deterministic=True)
        if len(stuck) >= 4 and case_limit(c) < 1:
            impl.append('err ImplStuck')   # it hung on four such inputs already: do not wait for the rest
            stuck.add(i)
            continue
        impl.append(nswire.result_line(guarded, call_impl, sl, ns, c, limit=case_limit(c)))
        if impl[-1] == 'err ImplStuck':
            stuck.add(i)
        if ns.SerializeToString(deterministic=True) != before:
            chk.fail('input modified', case_obj(ns, c))
    # numpy.arange model on its own: hop sizes / totals around exact multiples
    ar = []
    import numpy as np
    for _ in range(chk.n(3000, 60000)):
        k = rng.random()
        h = rng.uniform(0.01, 3) if k < 0.3 else round(rng.uniform(0.01, 3), 2) if k < 0.6 else rng.randrange(1, 40) / rng.choice([8, 10, 3, 7, 100])
        m = rng.random()
        nh = rng.randrange(0, 50) if rng.random() < 0.7 else rng.randrange(50, 400)
        total = h * nh if m < 0.5 else nswire.nextafter_n(h * nh, rng.choice([-2, -1, 1, 2])) if m < 0.7 else rng.uniform(0, 20)
        ar.append(('arange %s %s' % (rat(h), rat(total)), 'ok ' + wl(rat(float(x)) for x in np.arange(h, total, h))))
    model = chk.driver(EXE, reqs + [a for a, _ in ar])
    for (ns, c, hist), req, a, b in zip(cases, reqs, impl, model):
        chk.count(c['op'], req[:3000], b != 'bad-op', sorted(hist | coincidences(ns, c, a)))
        if a != b:
            chk.disagree(c['op'], case_obj(ns, c), a[:800], b[:800])
    for (req, a), b in zip(ar, model[len(reqs):]):
        chk.count('numpy.arange', req, True, 'len:%s' % min(int(a.split()[1]), 20))
        if a != b:
            chk.disagree('numpy.arange', {'request': req}, a[:400], b[:400])
    chk.sample({'request': reqs[0][:400] + ' …', 'impl': impl[0][:300] + ' …', 'model_equal': impl[0] == model[0]})
    chk.sample({'request': reqs[-1][:400] + ' …', 'impl': impl[-1][:300] + ' …', 'model_equal': impl[-1] == model[-1]})
    # oracle on the implementation (independent of the model)
    for i, (ns, c, _) in enumerate(cases):
        if i in stuck and case_limit(c) < 1:
            chk.count('oracle', None, hist='not-run (implementation did not return; input outside the quantifier)')
            continue
        r = oracle_case(sl, ns, c)
        chk.count('oracle', None, hist='fails' if r else 'holds')
        if r:
            chk.fail(r, case_obj(ns, c))
            if len(chk.failures) > 20:
                break


def replay(chk, obj):
    from note_seq import sequences_lib as sl
    generate_constants_only()
    ns, c = obj_case(obj)
    print('replay C02:', {k: v for k, v in obj.items() if k != 'sequence'})
    print('  implementation:', nswire.result_line(call_impl, sl, ns, c)[:600])
    r = oracle_case(sl, ns, c)
    print('PROPERTY FAILS: %s' % r if r else 'property holds on this input')
    return 1 if r else 0


def generate_constants_only():
    from note_seq import sequences_lib as sl
    global CH, BEAT
    CH, BEAT = int(sl.CHORD_SYMBOL), int(sl.BEAT)
