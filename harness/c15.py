"""C15 — a chord symbol computed from pitches denotes exactly those pitches (DESIGN 6.15)."""
import itertools
import json
import re

from harness.common import lean_int, lean_list, lean_str, corpus_cases

PID = 'C15'
MODULES = ['NoteSeqVerif.Props.C15']
EXE = 'drv_c15'


# ============================================================================= generator (T1)
class GenError(Exception):
    pass


def _alter_str(alter):
    return abs(alter) * ('#' if alter >= 0 else 'b')


def _deg(csl, name):
    """structured form of a scale-degree name via the real `_parse_degree`; the pair must print
    back to the name so that equality of names is equality of pairs."""
    if not isinstance(name, str) or not csl._SCALE_DEGREE_REGEX.match(name):
        raise GenError('scale degree name %r does not match _SCALE_DEGREE_REGEX' % (name,))
    num, alter = csl._parse_degree(name)
    if _alter_str(alter) + '%d' % num != name or num < 0:
        raise GenError('scale degree name %r does not print back from %r' % (name, (num, alter)))
    return '⟨%d, %s⟩' % (num, lean_int(alter))


def prefix_key(prefix):
    """structured form of a modification prefix: ('add'|'no'|'alt', sign); None if the string is
    not of that shape."""
    m = re.fullmatch(r'(add|no|)(#*|b*)', prefix)
    if not m:
        return None
    kind, acc = m.groups()
    sign = len(acc) * (1 if '#' in acc else -1)
    if kind == 'no':
        return ('no', 0) if not acc else None
    if kind == '' and not acc:
        return None
    return ('add' if kind == 'add' else 'alt', sign)


def generate(chk):
    """Generated/C15.lean: every table of chord_symbols_lib the model uses, from the working tree."""
    from note_seq import chord_symbols_lib as csl
    from note_seq import constants
    try:
        txt = _generate_text(csl, constants)
    except GenError as e:
        chk.translit['chord tables'] = 'BROKEN: %s' % e
        chk.broken.append('translator:C15 (%s)' % e)
        return False
    chk.translit['chord tables'] = 'regenerated from source'
    chk.regenerate('NoteSeqVerif/Generated/C15.lean', txt)
    return True


def _generate_text(csl, constants):
    by_abbrev = csl._CHORD_KINDS_BY_ABBREV
    abbrevs = list(by_abbrev)
    for a in abbrevs:
        if not isinstance(a, str) or re.search(r'\s', a):
            raise GenError('chord kind abbreviation %r is not a whitespace-free string' % (a,))
    kinds = []
    for abbrs, degrees in csl._CHORD_KINDS:
        if not abbrs:
            raise GenError('chord kind without abbreviation')
        kinds.append('⟨%d, %s⟩' % (abbrevs.index(abbrs[0]), lean_list(_deg(csl, d) for d in degrees)))
    if len(csl._SCALE_DEGREES) != 12:
        raise GenError('_SCALE_DEGREES has %d rows' % len(csl._SCALE_DEGREES))
    rows = [lean_list(_deg(csl, d) for d in row) for row in csl._SCALE_DEGREES]
    for name, tab in (('_STEPS_ABOVE', csl._STEPS_ABOVE), ('_STEPS_MIDI', csl._STEPS_MIDI)):
        for k, v in tab.items():
            if not (isinstance(k, str) and len(k) == 1 and 'A' <= k <= 'G' and isinstance(v, int)):
                raise GenError('%s entry %r: %r' % (name, k, v))
    for k, v in csl._DEGREE_OFFSETS.items():
        if not (isinstance(k, int) and k >= 0 and isinstance(v, int)):
            raise GenError('_DEGREE_OFFSETS entry %r: %r' % (k, v))
    fn_tag = {id(csl._add_scale_degree): 'add', id(csl._subtract_scale_degree): 'sub',
              id(csl._alter_scale_degree): 'alt'}
    mods = []
    for key, (fn, alter) in csl._DEGREE_MODIFICATIONS.items():
        pk = prefix_key(key)
        if pk is None or id(fn) not in fn_tag or not isinstance(alter, int):
            raise GenError('_DEGREE_MODIFICATIONS entry %r is outside the modelled shape' % (key,))
        mods.append('⟨.%s, %s, .%s, %s⟩' % (pk[0], lean_int(pk[1]), fn_tag[id(fn)], lean_int(alter)))

    def pairs(d, keyf):
        return lean_list('(%d, %s)' % (keyf(k), lean_int(v)) for k, v in d.items())
    q = [csl.CHORD_QUALITY_MAJOR, csl.CHORD_QUALITY_MINOR, csl.CHORD_QUALITY_AUGMENTED,
         csl.CHORD_QUALITY_DIMINISHED, csl.CHORD_QUALITY_OTHER]
    return (
        'import NoteSeqVerif.Model.C15Types\n'
        '/-! GENERATED from /repo/note_seq/chord_symbols_lib.py on every run by harness/c15.py — do not edit. -/\n'
        'namespace NSV.C15.Gen\nopen NSV.C15\n'
        '/-- `_SCALE_DEGREES` (row = relative pitch class) -/\n'
        'def SCALE_DEGREES : List (List Deg) := [\n  %s]\n' % ',\n  '.join(rows) +
        '/-- `_CHORD_KINDS` in source order: (index of `chord_abbrevs[0]` in `_CHORD_KINDS_BY_ABBREV`, degrees) -/\n'
        'def CHORD_KINDS : List Kind := [\n  %s]\n' % ',\n  '.join(kinds) +
        '/-- keys of `_CHORD_KINDS_BY_ABBREV` in dict order -/\n'
        'def KIND_ABBREVS : List String := %s\n' % lean_list(lean_str(a) for a in abbrevs) +
        '/-- values of `_CHORD_KINDS_BY_ABBREV` in dict order -/\n'
        'def KIND_DEGREES : List (List Deg) := [\n  %s]\n'
        % ',\n  '.join(lean_list(_deg(csl, d) for d in by_abbrev[a]) for a in abbrevs) +
        '/-- `_DEGREE_OFFSETS` -/\n'
        'def DEGREE_OFFSETS : List (Nat × Int) := %s\n' % pairs(csl._DEGREE_OFFSETS, lambda k: k) +
        "/-- `_STEPS_ABOVE`, letters `A..G` as `0..6` -/\n"
        'def STEPS_ABOVE : List (Nat × Int) := %s\n' % pairs(csl._STEPS_ABOVE, lambda k: ord(k) - 65) +
        '/-- `_STEPS_MIDI` -/\n'
        'def STEPS_MIDI : List (Nat × Int) := %s\n' % pairs(csl._STEPS_MIDI, lambda k: ord(k) - 65) +
        '/-- `_DEGREE_MODIFICATIONS` in dict order: prefix key, function tag, alteration -/\n'
        'def DEGREE_MODIFICATIONS : List ModEntry := %s\n' % lean_list(mods) +
        'def QUALITY_MAJOR : Int := %d\ndef QUALITY_MINOR : Int := %d\ndef QUALITY_AUGMENTED : Int := %d\n'
        'def QUALITY_DIMINISHED : Int := %d\ndef QUALITY_OTHER : Int := %d\n' % tuple(q) +
        'def NO_CHORD : String := %s\n' % lean_str(constants.NO_CHORD) +
        'end NSV.C15.Gen\n')


THEOREMS = [
    'NSV.C15.degree_tables_agree', 'NSV.C15.mods_rebuild', 'NSV.C15.candidate_denotes',
    'NSV.C15.bass_is_lowest', 'NSV.C15.name_denotes', 'NSV.C15.name_or_error', 'NSV.C15.name_error_iff',
    'NSV.C15.parse_consistent',
    'NSV.C15.steps_midi_spelling', 'NSV.C15.pitchClassToMidi_spelled', 'NSV.C15.pitchClassToMidi_respell',
    'NSV.C15.root_bass_spelled', 'NSV.C15.readers_respell',
]


# ============================================================================= real code, observed
def mirror_orders(pitches):
    """the three set expressions of pitches_to_chord_symbol, verbatim, evaluated by the same
    interpreter on the same list: bass, candidate roots in loop order, and for every root the
    iteration order of its relative-pitch set.  (Validated against the real run by ProductSpy.)"""
    pitch_classes = set(pitch % 12 for pitch in pitches)
    bass = min(pitches) % 12
    pitch_classes = [bass] + list(pitch_classes - set([bass]))
    rels = []
    for root in pitch_classes:
        relative_pitches = set((pitch - root) % 12 for pitch in pitch_classes)
        rels.append([pitch for pitch in relative_pitches])
    return bass, pitch_classes, rels


class ProductSpy:
    """stands in for the `itertools` module global of chord_symbols_lib during a run: records the
    argument rows of every `itertools.product` call (= the set iteration order really used)."""

    def __init__(self, real):
        self._real = real
        self.calls = []

    def __getattr__(self, name):
        return getattr(self._real, name)

    def product(self, *args, **kw):
        self.calls.append(args)
        return self._real.product(*args, **kw)


def spied_rels(csl, spy):
    out = []
    for args in spy.calls:
        rel = []
        for row in args:
            idx = [i for i, r in enumerate(csl._SCALE_DEGREES) if r is row]
            rel.append(idx[0] if len(idx) == 1 else -1)
        out.append(rel)
    return out


def call(f, *a):
    try:
        return ('ok', f(*a))
    except Exception as e:  # pylint: disable=broad-except
        return ('err', type(e).__name__)


def readers(csl, fig):
    """the four readers on a figure, in the driver's response format"""
    out = []
    for f in (csl.chord_symbol_root, csl.chord_symbol_bass, csl.chord_symbol_quality):
        k, v = call(f, fig)
        out.append(str(v) if k == 'ok' else 'E:' + v)
    k, v = call(csl.chord_symbol_pitches, fig)
    out.append((','.join(map(str, v)) or '-') if k == 'ok' else 'E:' + v)
    return ' '.join(out)


def wl(items):
    items = list(items)
    return ' '.join([str(len(items))] + [str(i) for i in items])


def name_request(pitches):
    if not pitches:
        return 'name 0 0 0', None
    bass, roots, rels = mirror_orders(pitches)
    req = 'name %s %s %d' % (wl(pitches), wl(rels[0]), len(roots) - 1)
    for r, rel in zip(roots[1:], rels[1:]):
        req += ' %d %s' % (r, wl(rel))
    return req, rels


def split_structure(csl, fig):
    """the figure as the REAL regular expressions split it -> wire form of a `Symbol`"""
    root_str, kind_str, mods_str, bass_str = csl._split_chord_symbol(fig)
    step, alter = csl._parse_root(root_str)
    kind = list(csl._CHORD_KINDS_BY_ABBREV).index(kind_str)
    mods = []
    s = mods_str
    while s:
        m = csl._MODIFICATION_REGEX.match(s)
        type_str, degree_str = m.groups()
        pk, sign = prefix_key(type_str)
        mods.append('%d %d %d' % ({'add': 0, 'no': 1, 'alt': 2}[pk], sign, int(degree_str)))
        s = s[m.end():]
    bass = csl._parse_bass(bass_str)
    req = 'parse %d %d %d %d' % (ord(step) - 65, alter, kind, len(mods))
    if mods:
        req += ' ' + ' '.join(mods)
    req += ' 0' if bass is None else ' 1 %d %d' % (ord(bass[0]) - 65, bass[1])
    return req, (root_str, kind_str, mods_str, bass_str)


# ============================================================================= generators
def layout(kind, pcs, bass, rng):
    """a list of MIDI pitches whose pitch-class set is `pcs` and whose lowest note has class `bass`"""
    rest = [p for p in pcs if p != bass]
    if kind == 'A':      # bass an octave below, others ascending
        return [bass + 48] + [p + 60 for p in rest]
    if kind == 'B':      # close position, ascending from the bass
        return [60 + bass] + sorted(60 + bass + (p - bass) % 12 for p in rest)
    if kind == 'D':      # descending list, bass last
        return [p + 72 for p in reversed(rest)] + [bass + 36]
    if kind == 'E':      # both ends of the MIDI range: bass in octave 0 (pitches 0..11), the others as high as 127 allows
        return [p + 12 * ((127 - p) // 12) for p in rest] + [bass]
    # 'R': random octaves, doublings, shuffled; bass lowest (sometimes below 0)
    lo = rng.choice([24, 24, 36, 12, -12]) + bass
    out = [lo]
    for p in rest:
        for _ in range(rng.choice([1, 1, 1, 2])):
            out.append(p + 12 * rng.randrange((lo - p) // 12 + 1, (lo - p) // 12 + 6))
    if rng.random() < 0.3:
        out.append(lo + 12 * rng.randrange(1, 4))
    rng.shuffle(out)
    return out


ROOT_ALTERS = ['', '#', 'b', '##', 'bb', '###', 'bbbb', 'bbb', '####', '#' * 11, 'b' * 11, '#' * 12, 'b' * 12, '#' * 13, 'b' * 13,
               '#' * 25, 'b' * 40]


def accidentals(n):
    return '#' * n if n >= 0 else 'b' * -n


def spelling_figures(csl, rng, thorough):
    """every letter with 0..14 (and 24, 36) sharps and flats as root and as bass, on a few kinds: the first and
    last values of the alteration range the chord grammar allows ('any number of # or b')"""
    kinds = list(csl._CHORD_KINDS_BY_ABBREV)
    out = []
    for step in 'ABCDEFG':
        for n in list(range(-14, 15)) + [-36, -24, 24, 36]:
            ks = kinds if thorough else rng.sample(kinds, 2)
            for kind in ks:
                out.append(step + accidentals(n) + kind)
            out.append('%s%s%s/%s%s' % (rng.choice('ABCDEFG'), rng.choice(['', '#', 'b']), rng.choice(kinds), step, accidentals(n)))
            out.append('%s%s%s%s/%s%s' % (step, accidentals(n), rng.choice(kinds), rng.choice(MOD_STRINGS),
                                            rng.choice('ABCDEFG'), accidentals(rng.choice([-13, -3, -2, 0, 1, 3, 12]))))
    return out


def gen_figure(csl, rng):
    """a figure of the chord grammar: root, kind abbreviation, 0-3 modifications, optional bass;
    returns (figure, pieces)"""
    step = rng.choice('ABCDEFG')
    root = step + rng.choice(ROOT_ALTERS[:3] * 4 + ROOT_ALTERS)
    kind = rng.choice(list(csl._CHORD_KINDS_BY_ABBREV))
    mods = []
    for _ in range(rng.choice([0, 0, 1, 1, 2, 3])):
        pre = rng.choice(list(csl._DEGREE_MODIFICATIONS))
        deg = rng.choice([1, 2, 3, 4, 5, 6, 7, 7, 9, 11, 13, 3, 5, 0, 8, 10, 12, 14, 15, 21])
        style = rng.choice(['(%s%d)', '(%s%d)', '%s%d', '(%s%d', '%s%d)'])
        mods.append(style % (pre, deg))
    bass = ''
    if rng.random() < 0.4:
        bass = '/' + rng.choice('ABCDEFG') + rng.choice(ROOT_ALTERS[:3] * 4 + ROOT_ALTERS)
    return root + kind + ''.join(mods) + bass


MOD_STRINGS = ['', '(add2)', '(add9)', '(#9)', '(b9)', '(#11)', '(b13)', '(add13)', '(add7)', '(add#7)', '(addb7)',
               '(no3)', '(no5)', '(no1)', '(no7)', '(b5)', '(#5)', '(b3)', '(#3)', '(b7)', '(#7)', '(add3)', '(add5)',
               '(add4)', '(add6)', '(addb6)', '(add#4)', 'add2add9', '(no3)(add3)', '(no5)(b5)', '(b5)(b5)', '(#5)(no5)',
               '(add2)(add2)', '(b9)(#9)', '(add9)(b9)', 'no3no5', '(add0)', '(add14)', '(b15)', '(no9)', '(add7)(#7)',
               '(add11)(#11)(add13)']

MALFORMED = ['', 'N.C.', 'H', 'c', 'C#b', 'Cb#', 'Cfoo', 'C(add##7)', 'C(addbb7)', 'C/', 'C//E', 'C/E/G', 'C7(9)',
             'C(add)', 'C(no)', 'Cm7b', 'C m', ' C', 'C ', 'Cmaj7(add x)', 'C()', 'C(add2))', 'C((add2)', 'C/e',
             'Cmaj7/Ebb#', 'C(add٣)', 'C\n', 'C/E\n', 'Csus3', 'C-+', 'CM7M7', '7', '/C', 'C(#)', 'Cadd-2',
             'C###', 'Dbbb', 'C####b', 'Cbbb#', 'C###/', 'C/E###b', 'C/E####', 'Fbbbbbbbbbbbbb/', 'G############m7b']


def gen_malformed(rng):
    if rng.random() < 0.5:
        return rng.choice(MALFORMED)
    alphabet = 'ABCDEFGabm#()/+-o0123456789nosud \t\n.'
    return ''.join(rng.choice(alphabet) for _ in range(rng.randrange(0, 9)))


# ============================================================================= property oracle
QUALITY_TRIADS = None


def triads(csl):
    return {csl.CHORD_QUALITY_MAJOR: (0, 4, 7), csl.CHORD_QUALITY_MINOR: (0, 3, 7),
            csl.CHORD_QUALITY_AUGMENTED: (0, 4, 8), csl.CHORD_QUALITY_DIMINISHED: (0, 3, 6)}


WHITE_KEYS = {'C': 0, 'D': 2, 'E': 4, 'F': 5, 'G': 7, 'A': 9, 'B': 11}


def spelled(fig):
    """(root, bass) pitch classes as WRITTEN in the figure, read without the library: the leading letter
    with its run of sharps / flats, and the letter after a final '/' (the root when there is none);
    None when the text does not start with a letter A..G."""
    def pc(letter, acc):
        return (WHITE_KEYS[letter] + (len(acc) if '#' in acc else -len(acc))) % 12
    m = re.match(r'([A-G])(#+|b+|)', fig)
    if not m:
        return None
    root = pc(*m.groups())
    b = re.search(r'/([A-G])(#+|b+|)\n?\Z', fig)
    return root, (pc(*b.groups()) if b else root)


def read_all(csl, fig):
    """the four readers: {'pitches': ('ok', list) | ('err', name), 'root': ..., 'bass': ..., 'quality': ...}"""
    return {nm: call(f, fig) for nm, f in (('pitches', csl.chord_symbol_pitches), ('root', csl.chord_symbol_root),
                                           ('bass', csl.chord_symbol_bass), ('quality', csl.chord_symbol_quality))}


def oracle_figure(csl, fig, must_parse):
    """parse-consistency clause of the property on one figure; returns None if it holds, else text.
    must_parse: the figure was produced by pitches_to_chord_symbol (so it has to be accepted).
    The figure is interpreted in a short HISTORY: once, then -- after the caller has used the returned
    pitch list in place -- a second time; what a symbol denotes must not depend on that."""
    first = read_all(csl, fig)
    kp, ps = first['pitches']
    seen = list(ps) if kp == 'ok' and isinstance(ps, (list, tuple)) else ps
    bad = _judge_figure(csl, fig, must_parse, first, seen)
    if bad:
        return bad
    # the caller turns the pitch classes into a voicing in place and then drops them
    if kp == 'ok' and isinstance(ps, list):
        for i in range(len(ps)):
            ps[i] += 60
        ps.append(-1)
        ps.reverse()
    second = read_all(csl, fig)
    if kp == 'ok' and second['pitches'][0] == 'ok' and second['pitches'][1] is ps:
        return 'chord_symbol_pitches(%r) handed out the same list object twice' % fig
    want = dict(first, pitches=(kp, seen))
    if second != want:
        d = [nm for nm in want if second[nm] != want[nm]][0]
        return ('chord_symbol_%s(%r) = %r on the second interpretation, %r on the first (the caller modified the first '
                'returned pitch list in place in between)' % (d, fig, second[d][1], want[d][1]))
    return None


def _judge_figure(csl, fig, must_parse, got, ps):
    kp = got['pitches'][0]
    if kp == 'err':
        if ps != 'ChordSymbolError':
            return 'chord_symbol_pitches(%r) raised %s' % (fig, ps)
        return 'produced name %r is rejected by the parser' % fig if must_parse else None
    res = {}
    for nm in ('root', 'bass', 'quality'):
        k, v = got[nm]
        if k == 'err':
            return 'chord_symbol_%s(%r) raised %s although the pitches parse' % (nm, fig, v)
        res[nm] = v
    for nm in ('root', 'bass'):
        v = res[nm]
        if not (isinstance(v, int) and not isinstance(v, bool) and 0 <= v <= 11):
            return 'chord_symbol_%s(%r) = %r is not in 0..11' % (nm, fig, v)
    if any(not (isinstance(p, int) and 0 <= p <= 11) for p in ps):
        return 'chord_symbol_pitches(%r) = %r has an entry outside 0..11' % (fig, ps)
    sp = spelled(fig)
    if sp is not None:
        for nm, w in zip(('root', 'bass'), sp):
            if res[nm] != w:
                return 'chord_symbol_%s(%r) = %r, but the symbol spells pitch class %d' % (nm, fig, res[nm], w)
    tri = triads(csl)
    qs = set(tri) | {csl.CHORD_QUALITY_OTHER}
    if res['quality'] not in qs:
        return 'chord_symbol_quality(%r) = %r is not a quality constant' % (fig, res['quality'])
    if res['quality'] in tri:
        need = {(res['root'] + o) % 12 for o in tri[res['quality']]}
        if not need <= set(ps):
            return ('quality %r of %r needs triad %s but pitches are %s'
                    % (res['quality'], fig, sorted(need), sorted(set(ps))))
    return None


def oracle_pitches(csl, pitches, result=None):
    """the naming clause on one list of pitches; returns (None | text, figure | None).
    `result` = what `call(pitches_to_chord_symbol, pitches)` already returned, if the caller has it.
    The namer is called in a short history as well: twice on the same list object, which must come back
    unchanged (also when the call raises) and must be named the same way both times."""
    if not pitches:
        return None, None
    want = {p % 12 for p in pitches}
    bass = min(pitches) % 12
    arg = list(pitches)
    k, fig = call(csl.pitches_to_chord_symbol, arg)
    if arg != list(pitches):
        return 'pitches_to_chord_symbol modified its argument: %r -> %r' % (list(pitches), arg), None
    if result is not None and (k, fig) != tuple(result):
        return 'pitches_to_chord_symbol(%r) gave %r, then %r' % (pitches, result[1], fig), None
    k2, fig2 = call(csl.pitches_to_chord_symbol, arg)
    if (k2, fig2) != (k, fig) or arg != list(pitches):
        return 'pitches_to_chord_symbol(%r) called twice on the same list: %r, then %r (list afterwards %r)' % (pitches, fig, fig2, arg), None
    if k == 'err':
        if fig != 'ChordSymbolError':
            return 'pitches_to_chord_symbol(%r) raised %s' % (pitches, fig), None
        # "raises ChordSymbolError and nothing else" must not depend on the container the pitches come in
        for conv in (tuple, set):
            k2, fig2 = call(csl.pitches_to_chord_symbol, conv(pitches))
            if k2 == 'err' and fig2 != 'ChordSymbolError':
                return 'pitches_to_chord_symbol(%s %r) raised %s' % (conv.__name__, pitches, fig2), None
        return None, None
    if not isinstance(fig, str):
        return 'pitches_to_chord_symbol(%r) returned %r' % (pitches, fig), None
    bad = oracle_figure(csl, fig, True)
    if bad:
        return bad, fig
    got = set(csl.chord_symbol_pitches(fig))
    b = csl.chord_symbol_bass(fig)
    if b != bass:
        return 'pitches %r (bass %d) named %r whose bass is %d' % (pitches, bass, fig, b), fig
    if got | {b} != want:
        return ('pitches %r = classes %s named %r, which denotes %s with bass %d'
                % (pitches, sorted(want), fig, sorted(got), b)), fig
    return None, fig


# ============================================================================= run
def run(chk):
    from note_seq import chord_symbols_lib as csl
    ok_gen = generate(chk)
    chk.prove(MODULES, THEOREMS, [EXE], extra_trusted=[
        'harness/c15.py generate(): table extraction (degree names carried as (number, alteration); '
        'printing back to the name is checked for every name)',
        'string layer modelled, not verified: the regular expressions that split a figure (every '
        'figure in the correspondence goes through the real ones) and the printing of names '
        '(compared as strings over the whole domain)',
        'CPython set iteration order enters the model as a parameter recorded from the real run '
        '(mirror of the three set expressions, cross-checked against the arguments of every '
        'itertools.product call); the theorems hold for every order'])
    chk.rule = ('names: (pitch-class set, bass member, octave layout) -> figure string + root/bass/quality/pitches of it, '
                'real code vs compiled model (exact strings, pitch lists in dict order); non-trivial = distinct '
                '(set, bass, layout) with a named result.  parse: figures of the chord grammar split by the real '
                'regexes, four readers vs model; non-trivial = distinct figures whose pitches parse')
    if not ok_gen:
        search(chk, csl)
        return
    spy = ProductSpy(itertools)
    saved = csl.itertools
    csl.itertools = spy
    try:
        corr_names(chk, csl, spy)
    finally:
        csl.itertools = saved
    corr_parse(chk, csl)
    known_and_corpus(chk, csl)
    chk.exhaustive = chk.thorough


def all_cases():
    for mask in range(1, 4096):
        pcs = [i for i in range(12) if mask >> i & 1]
        for bass in pcs:
            yield mask, pcs, bass


def corr_names(chk, csl, spy):
    rng = chk.subrng('names')
    cases = []   # (key, pitches)
    if chk.thorough:
        for mask, pcs, bass in all_cases():
            for lay in 'ABDRE':
                cases.append(((mask, bass, lay), layout(lay, pcs, bass, rng)))
    else:
        allc = list(all_cases())
        for mask, pcs, bass in rng.sample(allc, 5000):
            lay = rng.choice('ABDRE')
            cases.append(((mask, bass, lay), layout(lay, pcs, bass, rng)))
    cases.append(((0, 0, 'empty'), []))
    # the ends of the MIDI range, in both tiers: every one- and two-class set voiced in octave 0 (pitches 0..11, among them
    # the list [0], whose only member is falsy - seed C15-17 tested emptiness with any()), doubled, and at the top (..127)
    for mask, pcs, bass in all_cases():
        if len(pcs) <= 2:
            low = [bass] + [p + (12 if p < bass else 0) for p in pcs if p != bass]
            cases.append(((mask, bass, 'low'), low))
            cases.append(((mask, bass, 'low-doubled'), low + [low[0]]))
            top = bass + 12 * ((127 - bass) // 12)
            cases.append(((mask, bass, 'high'), [top] if len(pcs) == 1 else layout('E', pcs, bass, rng)))
    reqs, impl, figs, unsorted, results = [], [], [], [], []
    for key, pitches in cases:
        req, rels = name_request(pitches)
        unsorted.append(rels is not None and any(r != sorted(r) for r in rels))
        spy.calls = []
        k, fig = call(csl.pitches_to_chord_symbol, list(pitches))
        used = spied_rels(csl, spy)
        if rels is not None and used != rels:
            chk.disagree('set-order-monitor', {'pitches': pitches}, 'itertools.product rows %r' % (used,),
                         'mirror %r' % (rels,))
        reqs.append(req)
        figs.append(fig if k == 'ok' else None)
        results.append((k, fig))
        impl.append('ok %s %s' % (fig, readers(csl, fig)) if k == 'ok' else 'err ' + fig)
    model = chk.driver(EXE, reqs)
    for (key, pitches), req, a, b, fig, uns, res in zip(cases, reqs, impl, model, figs, unsorted, results):
        hist = ['size%02d' % len(set(p % 12 for p in pitches)), 'layout' + str(key[2])]
        if fig is None:
            hist.append('raises:' + a.split()[1])
        elif pitches:
            toks = a.split()
            hist.append('named')
            hist.append('bass=root' if toks[2] == toks[3] else 'slash-bass')
            if '(' in fig:
                hist.append('with-modifications')
            if toks[5] not in ('-',) and not toks[5].startswith('E:') and toks[3] not in toks[5].split(','):
                hist.append('bass-not-among-pitches')
        if uns:
            hist.append('set-order-not-sorted')
        chk.count('names', key, nontrivial=fig is not None and bool(pitches), hist=hist)
        if a != b:
            chk.disagree('names', {'pitches': pitches}, a, b)
        # property oracle on the real code
        bad, _ = oracle_pitches(csl, pitches, res)
        chk.count('oracle-names', None)
        if bad:
            chk.fail(bad, {'pitches': pitches})
    for i in (0, len(cases) // 3, 2 * len(cases) // 3):
        chk.sample({'pitches': cases[i][1], 'request': reqs[i], 'impl': impl[i], 'model': model[i]})
    chk.notes['names'] = {'cases': len(cases), 'named': sum(f is not None for f in figs) - 1,
                          'ChordSymbolError': sum(a == 'err ChordSymbolError' for a in impl)}


def corr_parse(chk, csl):
    rng = chk.subrng('parse')
    figs = []
    if chk.thorough:
        for step in 'ABCDEFG':
            for alt in ('', '#', 'b'):
                for kind in csl._CHORD_KINDS_BY_ABBREV:
                    for mods in MOD_STRINGS:
                        for bass in ('', '/E', '/Bb', '/F##'):
                            figs.append(step + alt + kind + mods + bass)
    else:
        for kind in csl._CHORD_KINDS_BY_ABBREV:
            for mods in MOD_STRINGS:
                figs.append(rng.choice('ABCDEFG') + rng.choice(['', '#', 'b']) + kind + mods
                            + rng.choice(['', '', '/E', '/Bb', '/F##']))
    figs += spelling_figures(csl, rng, chk.thorough)
    figs += [gen_figure(csl, rng) for _ in range(chk.n(6000, 150000))]
    reqs, impl, keep = [], [], []
    for fig in figs:
        try:
            req, pieces = split_structure(csl, fig)
        except Exception as e:  # pylint: disable=broad-except
            # ChordSymbolError: a grammar string the real splitter rejects: nothing for the model; oracle only.
            # Anything else: the library's own pieces failed on a string of the grammar -- that is for the oracle
            # to judge on the public readers (a concrete failing figure), not a reason to stop the run.
            chk.count('parse', fig, False, 'unsplittable' if isinstance(e, csl.ChordSymbolError) else 'split-raises:' + type(e).__name__)
            bad = oracle_figure(csl, fig, False)
            if bad:
                chk.fail(bad, {'figure': fig})
            elif not isinstance(e, csl.ChordSymbolError):
                chk.disagree('parse', {'figure': fig}, 'splitting with the library\'s pieces raised %s: %s' % (type(e).__name__, e),
                             'the public readers accept the figure')
            continue
        reqs.append(req)
        impl.append(readers(csl, fig))
        keep.append((fig, pieces))
    model = chk.driver(EXE, reqs)
    for (fig, pieces), req, a, b in zip(keep, reqs, impl, model):
        t = a.split()
        hist = ['pitches:' + ('ChordSymbolError' if t[3].startswith('E:') else 'ok'), 'quality:' + t[2]]
        if ''.join(pieces) != fig:
            hist.append('split-loses-text')
        nacc = max(len(pieces[0]) - 1, len(pieces[3]) - 2)
        hist.append('accidentals:' + ('0-2' if nacc <= 2 else '3-11' if nacc < 12 else '12+'))
        chk.count('parse', fig, nontrivial=not t[3].startswith('E:'), hist=hist)
        if a != b:
            chk.disagree('parse', {'figure': fig, 'request': req}, a, b)
        bad = oracle_figure(csl, fig, False)
        chk.count('oracle-parse', None)
        if bad:
            chk.fail(bad, {'figure': fig})
    i = len(keep) // 2
    chk.sample({'figure': keep[i][0], 'request': reqs[i], 'impl': impl[i], 'model': model[i]})
    # malformed strings: oracle only (the regular expressions are outside the model)
    mrng = chk.subrng('malformed')
    for _ in range(chk.n(2000, 40000)):
        fig = gen_malformed(mrng)
        k, v = call(csl.chord_symbol_pitches, fig)
        chk.count('malformed', fig, False, 'parses' if k == 'ok' else 'raises:' + v)
        bad = oracle_figure(csl, fig, False)     # also judges WHICH exception a rejected string raises
        if bad:
            chk.fail(bad, {'figure': fig})


def known_and_corpus(chk, csl):
    """replay every known finding of this property and the committed corpus against the real code"""
    for e in chk.known:
        m = e.get('match', {})
        if 'pitch_classes' in m:
            pitches = layout('A', sorted(m['pitch_classes']), m['bass'], None)
            bad, _ = oracle_pitches(csl, pitches)
            chk.count('known-findings', e['id'], True, 'fails' if bad else 'holds')
            if bad:
                chk.fail(bad, {'pitches': pitches}, finding=e['id'] if e.get('status') == 'open' else None)
    reqs, impl, objs = [], [], []
    for name, obj in corpus_cases(PID):
        if 'pitches' in obj:
            bad, _ = oracle_pitches(csl, obj['pitches'])
            req, _ = name_request(obj['pitches'])
            k, fig = call(csl.pitches_to_chord_symbol, list(obj['pitches']))
            a = 'ok %s %s' % (fig, readers(csl, fig)) if k == 'ok' else 'err ' + fig
        else:
            bad = oracle_figure(csl, obj['figure'], False)
            try:
                req, _ = split_structure(csl, obj['figure'])
            except Exception:  # pylint: disable=broad-except
                req = None     # the oracle above has judged the figure on the public readers
            a = readers(csl, obj['figure'])
        chk.count('corpus', name, True, 'fails' if bad else 'holds')
        if bad:
            chk.fail(bad, obj)
        if req is not None:
            reqs.append(req)
            impl.append(a)
            objs.append(obj)
    for obj, a, b in zip(objs, impl, chk.driver(EXE, reqs)):
        if a != b:
            chk.disagree('corpus', obj, a, b)


def search(chk, csl):
    """failing-input search when the tables could not even be regenerated: oracle over the whole domain"""
    for mask, pcs, bass in all_cases():
        pitches = layout('A', pcs, bass, None)
        bad, _ = oracle_pitches(csl, pitches)
        chk.count('oracle-names', None)
        if bad:
            chk.fail(bad, {'pitches': pitches})
            if len(chk.failures) > 20:
                return


# ============================================================================= replay
def replay(chk, obj):
    from note_seq import chord_symbols_lib as csl
    print('replay', json.dumps(obj))
    if 'pitch_classes' in obj:
        obj = {'pitches': layout('A', sorted(obj['pitch_classes']), obj['bass'], None)}
    if 'pitches' in obj:
        bad, fig = oracle_pitches(csl, obj['pitches'])
        print('pitches %r -> classes %s, bass %d' % (obj['pitches'], sorted({p % 12 for p in obj['pitches']}),
                                                     min(obj['pitches']) % 12 if obj['pitches'] else -1))
        print('pitches_to_chord_symbol:', call(csl.pitches_to_chord_symbol, list(obj['pitches'])))
        if fig is not None:
            print('readers (root bass quality pitches):', readers(csl, fig))
    elif 'figure' in obj:
        bad = oracle_figure(csl, obj['figure'], False)
        print('readers (root bass quality pitches):', readers(csl, obj['figure']))
    else:
        print('nothing to replay against the real code in this file (theorem / correspondence entry)')
        return 0
    print('PROPERTY FAILS: ' + bad if bad else 'property holds on this input')
    return 1 if bad else 0
