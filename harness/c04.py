"""C04 — ABC tunes parse to the pitches, durations, keys and repeats they notate (DESIGN 6.4).

The Lean model consumes a TOKEN STREAM; the generator below produces the token stream and its ABC
text; the real parser reads the text, the model reads the tokens.  The regular expressions of
abc_parser.py are therefore modelled (a regex that stops tokenising the grammar's text the way the
grammar says shows up as a correspondence disagreement), not verified."""
import ast
import inspect
import re
import textwrap
from fractions import Fraction as F

from harness.common import rat, lean_int, lean_list, corpus_cases

PID = 'C04'
KEYS_MOD = 'NoteSeqVerif.Props.C04_keys'
FLOAT_MOD = 'NoteSeqVerif.Props.C04_float'
REP_MOD = 'NoteSeqVerif.Props.C04_repeats'
EVT_MOD = 'NoteSeqVerif.Props.C04_events'
MODULES = [KEYS_MOD, FLOAT_MOD, REP_MOD, EVT_MOD, 'NoteSeqVerif.Props.C04']
EXE = 'drv_c04'
THEOREMS = [
    (KEYS_MOD, 'NSV.C04.abc_key_table_total'), (KEYS_MOD, 'NSV.C04.abc_key_table_rows'),
    (KEYS_MOD, 'NSV.C04.abc_key_table_complete'), (KEYS_MOD, 'NSV.C04.sigToAccs_spec'),
    'NSV.C04.abc_explicit_accidentals', 'NSV.C04.abc_note_table', 'NSV.C04.abc_pitch', 'NSV.C04.abc_pitch_tune',
    'NSV.C04.abc_pitch_rejects', 'NSV.C04.abc_length', 'NSV.C04.abc_default_unit', 'NSV.C04.abc_tempo',
    'NSV.C04.abc_onsets_exact', 'NSV.C04.abc_broken_rhythm', 'NSV.C04.abc_header',
    'NSV.C04.abc_isolation', 'NSV.C04.abc_isolation_book', 'NSV.C04.abc_repeat_errors',
    'NSV.C04.abc_repeats_expansion', 'NSV.C04.abc_repeats_no_groups', 'NSV.C04.abc_repeats',
    # float layer (any rounding operator R with the facts of Proofs/Rounding.lean; rne53 is one)
    (FLOAT_MOD, 'NSV.C04.abc_float_note'), (FLOAT_MOD, 'NSV.C04.abc_float_order'),
    (FLOAT_MOD, 'NSV.C04.abc_float_onsets_near'), (FLOAT_MOD, 'NSV.C04.abc_float_onsets'),
    (FLOAT_MOD, 'NSV.C04.abc_float_exact_dyadic'), (FLOAT_MOD, 'NSV.C04.abc_float_header'),
    (FLOAT_MOD, 'NSV.C04.abc_float_default_unit'), (FLOAT_MOD, 'NSV.C04.abc_float_broken'),
    # repeats with broken rhythm, expanded onsets, the degenerate backward repeat
    (REP_MOD, 'NSV.C04.abc_repeats_broken'), (REP_MOD, 'NSV.C04.abc_repeats_general'),
    (REP_MOD, 'NSV.C04.abc_quirk_only_degenerate'), (REP_MOD, 'NSV.C04.abc_degenerate_repeat'),
    (REP_MOD, 'NSV.C04.abc_degenerate_repeat_at_zero'), (REP_MOD, 'NSV.C04.abc_broken_across_section_fails'),
    # a bar token without colons at a time where a section boundary already exists adds nothing; elsewhere a double bar
    # outside a repeat starts a section and plays the one before it once
    (REP_MOD, 'NSV.C04.abc_double_bar_at_boundary'), (REP_MOD, 'NSV.C04.abc_double_bar_new_section'),
    # the non-note containers of expand_section_groups, per section copy (C02's extract + C13's concatenate)
    (EVT_MOD, 'NSV.C04.abc_expand_events'), (EVT_MOD, 'NSV.C04.abc_expand_events_parsed'),
    (EVT_MOD, 'NSV.C04.abc_expand_models_agree'),
]


# ============================================================================= generated tables
class GenError(Exception):
    pass


def lchars(s):
    return '[' + ', '.join("'%s'" % ('\\\\' if c == '\\' else "\\'" if c == "'" else c) for c in s) + ']'


def lrat(x):
    x = F(x)
    return '(%d : Rat)' % x.numerator if x.denominator == 1 else '((%d : Rat) / %d)' % (x.numerator, x.denominator)


def _fraction_call(node):
    if (isinstance(node, ast.Call) and isinstance(node.func, ast.Name) and node.func.id == 'Fraction'
            and len(node.args) == 2 and all(isinstance(a, ast.Constant) for a in node.args)):
        return F(node.args[0].value, node.args[1].value)
    raise GenError('expected Fraction(a, b), got %s' % ast.dump(node))


def extract_unit_rule(ap):
    """(free-meter unit, threshold, unit below threshold, unit otherwise) from the AST of
    ABCTune._set_unit_note_length_from_header."""
    fn = ast.parse(textwrap.dedent(inspect.getsource(ap.ABCTune._set_unit_note_length_from_header))).body[0]
    top = [s for s in fn.body if isinstance(s, ast.If)]
    if len(top) != 1:
        raise GenError('unit rule: unexpected statement structure')
    lvl1 = top[0]
    if not (isinstance(lvl1.test, ast.Attribute) and lvl1.test.attr == '_current_unit_note_length'
            and len(lvl1.orelse) == 1 and isinstance(lvl1.orelse[0], ast.If)):
        raise GenError('unit rule: first test is not the explicit unit length')
    lvl2 = lvl1.orelse[0]
    if not (isinstance(lvl2.test, ast.UnaryOp) and isinstance(lvl2.test.op, ast.Not)
            and getattr(lvl2.test.operand, 'attr', None) == 'time_signatures'
            and len(lvl2.body) == 1 and isinstance(lvl2.body[0], ast.Assign)):
        raise GenError('unit rule: free-meter branch not recognised')
    free = _fraction_call(lvl2.body[0].value)
    cmp_if = [s for s in lvl2.orelse if isinstance(s, ast.If) and isinstance(s.test, ast.Compare)
              and isinstance(s.test.left, ast.Name) and s.test.left.id == 'ratio']
    ratio_assign = [s for s in lvl2.orelse if isinstance(s, ast.Assign) and isinstance(s.targets[0], ast.Name)
                    and s.targets[0].id == 'ratio']
    if len(cmp_if) != 1 or len(ratio_assign) != 1:
        raise GenError('unit rule: ratio comparison not recognised')
    ra = ratio_assign[0].value
    if not (isinstance(ra, ast.BinOp) and isinstance(ra.op, ast.Div) and getattr(ra.left, 'attr', None) == 'numerator'
            and getattr(ra.right, 'attr', None) == 'denominator'):
        raise GenError('unit rule: ratio is not numerator / denominator')
    c = cmp_if[0]
    if not (len(c.test.ops) == 1 and isinstance(c.test.ops[0], ast.Lt) and isinstance(c.test.comparators[0], ast.Constant)
            and len(c.body) == 1 and len(c.orelse) == 1):
        raise GenError('unit rule: comparison is not `ratio < const`')
    thr = F(c.test.comparators[0].value)
    return free, thr, _fraction_call(c.body[0].value), _fraction_call(c.orelse[0].value)


def extract_broken_tolerance(ap):
    """the constant of `if abs(note1_len - note2_len) > const:` in ABCTune._apply_broken_rhythm"""
    fn = ast.parse(textwrap.dedent(inspect.getsource(ap.ABCTune._apply_broken_rhythm))).body[0]
    hits = []
    for n in ast.walk(fn):
        if (isinstance(n, ast.If) and isinstance(n.test, ast.Compare) and len(n.test.ops) == 1
                and isinstance(n.test.left, ast.Call) and getattr(n.test.left.func, 'id', None) == 'abs'):
            arg = n.test.left.args[0]
            if not (isinstance(n.test.ops[0], ast.Gt) and isinstance(n.test.comparators[0], ast.Constant)
                    and isinstance(arg, ast.BinOp) and isinstance(arg.op, ast.Sub)
                    and getattr(arg.left, 'id', None) == 'note1_len' and getattr(arg.right, 'id', None) == 'note2_len'
                    and isinstance(n.body[0], ast.Raise)):
                raise GenError('broken rhythm: length test not recognised')
            hits.append(F(n.test.comparators[0].value))
    if len(hits) != 1:
        raise GenError('broken rhythm: expected exactly one `abs(note1_len - note2_len) > const` test')
    return hits[0]


def extract_modes(ap):
    """mode aliases ('min' -> 'm', ...) and the mode -> proto enum chain from the AST of parse_key;
    the mode prefixes from KEY_PATTERN."""
    from note_seq.protobuf import music_pb2
    fn = ast.parse(textwrap.dedent(inspect.getsource(ap.ABCTune.parse_key))).body[0]
    aliases, protos = [], []

    def walk_chain(node, handler):
        while True:
            handler(node)
            if len(node.orelse) == 1 and isinstance(node.orelse[0], ast.If):
                node = node.orelse[0]
            else:
                return node.orelse

    for st in fn.body:
        if not isinstance(st, ast.If) or not isinstance(st.test, ast.Compare):
            continue
        left = st.test.left
        if not (isinstance(left, ast.Name) and left.id == 'mode'):
            continue
        if isinstance(st.test.ops[0], ast.In):
            def h(node):
                tgt = node.body[0]
                if not (isinstance(node.test.ops[0], ast.In) and isinstance(tgt, ast.Assign)
                        and tgt.targets[0].id == 'mode' and isinstance(tgt.value, ast.Constant)):
                    raise GenError('parse_key: alias chain not recognised')
                for e in node.test.comparators[0].elts:
                    aliases.append((e.value, tgt.value.value))
            rest = walk_chain(st, h)
            if rest:
                raise GenError('parse_key: alias chain has an else branch')
        elif isinstance(st.test.ops[0], ast.Eq):
            def h2(node):
                tgt = node.body[0]
                if not (isinstance(node.test.ops[0], ast.Eq) and isinstance(node.test.comparators[0], ast.Constant)
                        and isinstance(tgt, ast.Assign) and tgt.targets[0].id == 'proto_mode'
                        and isinstance(tgt.value, ast.Attribute)):
                    raise GenError('parse_key: mode chain not recognised')
                protos.append((node.test.comparators[0].value,
                               getattr(music_pb2.NoteSequence.KeySignature, tgt.value.attr)))
            rest = walk_chain(st, h2)
            if not (len(rest) == 1 and isinstance(rest[0], ast.Raise)):
                raise GenError('parse_key: mode chain does not end in raise')
    if not aliases or not protos:
        raise GenError('parse_key: mode handling not found')
    m = re.search(r'\(\?:\(\?:([a-z|]+)\)\[\^ \]\*\)\?', ap.ABCTune.KEY_PATTERN.pattern)
    if not m or not (ap.ABCTune.KEY_PATTERN.flags & re.IGNORECASE):
        raise GenError('KEY_PATTERN: mode alternation not recognised')
    return aliases, protos, m.group(1).split('|')


def gen_text():
    from note_seq import abc_parser as ap, constants
    from note_seq.protobuf import music_pb2
    T = ap.ABCTune
    free, thr, short, long_ = extract_unit_rule(ap)
    aliases, protos, prefixes = extract_modes(ap)
    tol = extract_broken_tolerance(ap)
    TA = music_pb2.NoteSequence.TextAnnotation
    out = ['/-! GENERATED from /repo on every run by harness/c04.py — do not edit. -/',
           'namespace NSV.C04.Gen',
           '/-- `ABCTune.SIG_TO_KEYS` (insertion order) -/',
           'def SIG_TO_KEYS : List (Int × List (List Char)) := ' + lean_list(
               '(%s, %s)' % (lean_int(s), lean_list(lchars(k) for k in ks)) for s, ks in T.SIG_TO_KEYS.items()),
           '/-- `ABCTune.KEY_TO_SIG` as built by the class body -/',
           'def KEY_TO_SIG : List (List Char × Int) := ' + lean_list(
               '(%s, %s)' % (lchars(k), lean_int(v)) for k, v in T.KEY_TO_SIG.items()),
           'def KEY_TO_PROTO_KEY : List (List Char × Nat) := ' + lean_list(
               '(%s, %d)' % (lchars(k), int(v)) for k, v in T.KEY_TO_PROTO_KEY.items()),
           'def ABC_NOTE_TO_MIDI : List (Char × Int) := ' + lean_list(
               "('%s', %d)" % (k, v) for k, v in T.ABC_NOTE_TO_MIDI.items()),
           'def SHARPS_ORDER : List Char := ' + lchars(T.SHARPS_ORDER),
           'def FLATS_ORDER : List Char := ' + lchars(T.FLATS_ORDER),
           'def DECORATION_TO_VELOCITY : List (List Char × Int) := ' + lean_list(
               '(%s, %d)' % (lchars(k), v) for k, v in T.DECORATION_TO_VELOCITY.items()),
           '/-- `DECORATION_TO_VELOCITY[\'!mf!\']`, the velocity of every note -/',
           'def DEFAULT_VELOCITY : Int := %d' % T.DECORATION_TO_VELOCITY['!mf!'],
           '/-- parse_key: `if mode in (..): mode = ..` -/',
           'def MODE_ALIASES : List (List Char × List Char) := ' + lean_list(
               '(%s, %s)' % (lchars(a), lchars(b)) for a, b in aliases),
           '/-- parse_key: `if mode == ..: proto_mode = ..` chain, in order -/',
           'def MODE_TO_PROTO : List (List Char × Nat) := ' + lean_list(
               '(%s, %d)' % (lchars(a), int(b)) for a, b in protos),
           '/-- the mode alternation of KEY_PATTERN (re.IGNORECASE), in order -/',
           'def MODE_PREFIXES : List (List Char) := ' + lean_list(lchars(p) for p in prefixes),
           'def MIN_MIDI_PITCH : Int := %d' % constants.MIN_MIDI_PITCH,
           'def MAX_MIDI_PITCH : Int := %d' % constants.MAX_MIDI_PITCH,
           'def DEFAULT_QPM : Rat := ' + lrat(constants.DEFAULT_QUARTERS_PER_MINUTE),
           'def STANDARD_PPQ : Int := %d' % constants.STANDARD_PPQ,
           '/-- _set_unit_note_length_from_header: free meter, `ratio < threshold`, below, otherwise -/',
           'def UNIT_FREE : Rat := ' + lrat(free),
           'def UNIT_THRESHOLD : Rat := ' + lrat(thr),
           'def UNIT_BELOW : Rat := ' + lrat(short),
           'def UNIT_OTHERWISE : Rat := ' + lrat(long_),
           '/-- _apply_broken_rhythm: `abs(note1_len - note2_len) > tolerance` rejects (exact value of the double) -/',
           'def BROKEN_TOLERANCE : Rat := ' + lrat(tol),
           'def ANNOT_CHORD_SYMBOL : Nat := %d' % TA.CHORD_SYMBOL,
           'def ANNOT_UNKNOWN : Nat := %d' % TA.UNKNOWN,
           'end NSV.C04.Gen', '']
    return '\n'.join(out)


def generate(chk):
    try:
        chk.regenerate('NoteSeqVerif/Generated/C04.lean', gen_text())
        chk.translit['abc tables + unit-length rule + mode chain'] = 'regenerated from source (tables by value, rules by AST)'
    except GenError as e:
        chk.translit['abc tables'] = 'BROKEN: %s' % e
        chk.broken.append('translator:C04 (%s)' % e)


# ============================================================================= tokens -> text / wire
# A field is a tuple whose first item is its kind; a token likewise.  `*_text` renders ABC, `*_wire`
# the token stream for the Lean model.  Strings travel as 'h' + hex.
def hx(s):
    return 'h' + s.encode('ascii').hex()


def key_text(k):
    s = k['tonic'] + k['acc']
    if k['mode']:
        s += k.get('sp', '') + k['mode']
    if k['exp']:
        s += ' exp'
    for a, l in k['accs']:
        s += ' ' + a + l
    return s


def key_wire(k):
    return 'K %s %s %s %d %d %s' % (k['tonic'], k['acc'] or '0', hx(k['mode']), 1 if k['exp'] else 0, len(k['accs']),
                                    ' '.join('%s %s' % (a or '0', l) for a, l in k['accs']))


def field_text(f):
    """(letter, content)"""
    kd = f[0]
    if kd == 'X':
        return 'X', str(f[1])
    if kd == 'XBAD':
        return 'X', f[1]
    if kd in ('T', 'C'):
        return kd, f[1]
    if kd in ('MC', 'MCUT', 'MNONE', 'MBAD'):
        return 'M', f[1]
    if kd == 'M':
        return 'M', '%d/%d' % (f[1], f[2])
    if kd == 'L':
        return 'L', ('%d' % f[1]) if f[3] else '%d/%d' % (f[1], f[2])
    if kd == 'LBAD':
        return 'L', f[1]
    if kd == 'Q':
        beats, rate, pre, eq, suf = f[1], f[2], f[3], f[4], f[5]
        return 'Q', pre + ' '.join('%d/%d' % tuple(b) for b in beats) + eq + str(rate) + suf
    if kd == 'QOLD':
        return 'Q', f[2] + str(f[1])
    if kd in ('QSTR', 'QBAD'):
        return 'Q', f[1]
    if kd == 'K':
        return 'K', key_text(f[1])
    if kd == 'KBAD':
        return 'K', f[1]
    if kd in ('P', 'V'):
        return kd, f[1]
    if kd == 'O':
        return f[1], f[2]
    raise ValueError(f)


def field_wire(f):
    kd = f[0]
    if kd == 'X':
        return 'X %d' % f[1]
    if kd in ('T', 'C'):
        return '%s %s' % (kd, hx(f[1]))
    if kd == 'M':
        return 'M %d %d' % (f[1], f[2])
    if kd == 'L':
        return 'L %d %d' % (f[1], f[2])
    if kd == 'Q':
        return 'Q %d %s %d' % (len(f[1]), ' '.join('%d %d' % tuple(b) for b in f[1]), f[2])
    if kd == 'QOLD':
        return 'QOLD %d' % f[1]
    if kd == 'K':
        return key_wire(f[1])
    if kd in ('XBAD', 'MC', 'MCUT', 'MNONE', 'MBAD', 'LBAD', 'QSTR', 'QBAD', 'KBAD', 'P', 'V', 'O'):
        return kd
    raise ValueError(f)


def len_text(l):
    num, sl, den = l
    return ('' if num is None else str(num)) + '/' * sl + ('' if den is None else str(den))


def tok_text(t):
    kd = t[0]
    if kd == 'N':
        return t[1] + t[2] + t[3] + len_text(t[4])
    if kd == 'BR':
        return ('>' if t[1] else '<') * t[2]
    if kd == 'I':
        a, b = field_text(t[1])
        return '[%s:%s]' % (a, t[2] + b)
    if kd == 'B':
        return ':' * t[1] + t[2] + ':' * t[3]
    if kd == 'CO':
        return ':' * t[1]
    if kd == 'AN':
        return '"%s"' % t[1]
    if kd == 'TI':
        return '-'
    if kd == 'CT':
        return '\\'
    if kd in ('CH', 'VE', 'DE', 'SL', 'TU', 'IV'):
        return t[1]
    raise ValueError(t)


def tok_wire(t):
    kd = t[0]
    if kd == 'N':
        num, sl, den = t[4]
        return 'N %s %s %d %s %s %d %s' % (t[1] or '0', t[2], len(t[3]), ' '.join('1' if c == "'" else '0' for c in t[3]),
                                           '-' if num is None else num, sl, '-' if den is None else den)
    if kd == 'BR':
        return 'BR %d %d' % (1 if t[1] else 0, t[2])
    if kd == 'I':
        return 'I ' + field_wire(t[1])
    if kd == 'B':
        return 'B %d %d %d' % (t[1], len(t[2]), t[3])
    if kd == 'CO':
        return 'CO %d' % t[1]
    if kd == 'AN':
        return 'AN ' + hx(t[1])
    if kd in ('CH', 'VE', 'DE', 'SL', 'TI', 'CT', 'TU', 'IV'):
        return kd
    raise ValueError(t)


BARCH = '|[]'


def music_text(toks, rng):
    """ABC text of one music line.  A space is inserted wherever two adjacent token texts would be
    tokenised differently when juxtaposed (bar/colon runs, `[` after a bar, two broken-rhythm runs)
    and, at random, anywhere else; a line must not look like an information field."""
    out = []
    prev = None
    for t in toks:
        s = tok_text(t)
        if prev is not None:
            need = False
            if prev[0] in ('B', 'CO') and s[0] in BARCH + ':':
                need = True
                # ... except an inline field directly after a bar / colon run (`|[K:G]`, `::[M:3/4]`): the bar pattern
                # must leave the field's `[` alone (F-C04-5), so this juxtaposition is rendered without a space too
                if re.match(r'\[[A-Za-z]:', s) and not (prev[0] == 'B' and prev[2].endswith('[') and not prev[3]):
                    need = False
            if prev[0] == 'BR' and t[0] == 'BR':
                need = True
            if prev[0] == 'B' and prev[2].endswith('[') and not prev[3]:
                need = True     # `[C]` would be a chord, `[K:..]` an inline field
            if need or rng.random() < 0.25:
                out.append(rng.choice([' ', ' ', ' ', '  ', '\t']))
        out.append(s)
        prev = t
    line = ''.join(out)
    if re.match(r'[A-Za-z]:', line):
        line = line[0] + ' ' + line[1:]
    return line


def line_text(ln, rng):
    if ln[0] == 'F':
        a, b = field_text(ln[1])
        return '%s:%s%s' % (a, ln[2] if len(ln) > 2 else '', b)
    return music_text(ln[1], rng)


def line_wire(ln):
    if ln[0] == 'F':
        return 'F ' + field_wire(ln[1])
    return 'M %d %s' % (len(ln[1]), ' '.join(tok_wire(t) for t in ln[1]))


def book_text(sections, rng, plain=False):
    """sections: list of line lists.  Blank lines separate sections; comments, trailing blanks and
    comment-only lines are sprinkled in (they are not part of the token stream)."""
    out = []
    for i, sec in enumerate(sections):
        if i:
            out.extend([''] if plain else rng.choice([[''], ['', ''], ['  '], ['', '\t', '']]))
        for ln in sec:
            s = line_text(ln, rng)
            if not plain:
                r = rng.random()
                if r < 0.06:
                    out.append('% a comment line')
                if r > 0.92:
                    s = s + rng.choice([' % remark', '  ', '%', ' %% x'])
                elif r > 0.86:
                    s = ' ' + s
            out.append(s)
    nl = '\n' if plain or rng.random() < 0.9 else '\r\n'
    return nl.join(out) + (nl if rng.random() < 0.8 else '')


def book_wire(sections):
    return 'book %d %s' % (len(sections), ' '.join('%d %s' % (len(s), ' '.join(line_wire(l) for l in s)) for s in sections))


# ============================================================================= the real parser, canonicalised
def canon_tune(sl, ns):
    def notes(seq):
        return '%d %s' % (len(seq), ' '.join('%d %d %s %s' % (n.pitch, n.velocity, rat(n.start_time), rat(n.end_time)) for n in seq)) \
            if len(seq) else '0 '
    def lst(items):
        items = list(items)
        return ('%d %s' % (len(items), ' '.join(items))) if items else '0 '
    try:
        e = sl.expand_section_groups(ns)
        exp = 'ok ' + notes(e.notes)
        # every other container of the expansion (model: Model/C04Full.lean = C02's extract + C13's concatenate)
        expall = ' '.join(['ok', rat(e.total_time), str(len(e.notes)),
                           'tempos', lst('%s %s' % (rat(t.time), rat(t.qpm)) for t in e.tempos),
                           'ts', lst('%s %d %d' % (rat(t.time), t.numerator, t.denominator) for t in e.time_signatures),
                           'ks', lst('%s %d %d' % (rat(t.time), t.key, t.mode) for t in e.key_signatures),
                           'ta', lst('%s %d %s' % (rat(t.time), t.annotation_type, hx(t.text)) for t in e.text_annotations),
                           'sa', lst('%s %d' % (rat(t.time), t.section_id) for t in e.section_annotations)])
    except Exception as ex:  # pylint: disable=broad-except
        exp = 'err ' + type(ex).__name__
        expall = 'err ' + type(ex).__name__
    md = ns.sequence_metadata
    parts = [str(ns.reference_number), 'notes', notes(ns.notes),
             'tempos', lst('%s %s' % (rat(t.time), rat(t.qpm)) for t in ns.tempos),
             'ts', lst('%s %d %d' % (rat(t.time), t.numerator, t.denominator) for t in ns.time_signatures),
             'ks', lst('%s %d %d' % (rat(t.time), t.key, t.mode) for t in ns.key_signatures),
             'sa', lst('%s %d' % (rat(t.time), t.section_id) for t in ns.section_annotations),
             'sg', lst('%d %d' % (g.sections[0].section_id, g.num_times) for g in ns.section_groups),
             'ta', lst('%s %d %s' % (rat(t.time), t.annotation_type, hx(t.text)) for t in ns.text_annotations),
             'total', rat(ns.total_time), 'title', hx(md.title), 'comp', lst(hx(c) for c in md.composers),
             'artist', hx(md.artist), 'exp', exp, 'expall', expall]
    return ' '.join(parts)


def norm(line):
    return ' '.join(line.split())


def impl_line(ap, sl, text):
    try:
        tunes, excs = ap.parse_abc_tunebook(text)
    except Exception as e:  # pylint: disable=broad-except
        return 'raise ' + type(e).__name__, ['raise ' + type(e).__name__]
    items = [canon_tune(sl, ns) for ns in tunes.values()]
    names = [type(e).__name__ for e in excs]
    line = 'ok %d %s %d %s' % (len(items), ' '.join(items), len(excs), ' '.join(names))
    return norm(line), ['tune-error:' + n for n in names] + ['tune-parsed'] * len(items)


# ============================================================================= grammar-based generator
MODE_WORDS = {
    '': ['', '', '', 'maj', 'Maj', 'major', 'Major', 'MAJOR', 'ion', 'Ion', 'ionian', 'Ionian'],
    'm': ['m', 'm', 'min', 'Min', 'MIN', 'minor', 'Minor', 'aeo', 'Aeo', 'aeolian', 'Aeolian'],
    'mix': ['Mix', 'mix', 'MIX', 'mixolydian', 'Mixolydian', 'mixo'],
    'dor': ['Dor', 'dor', 'DOR', 'dorian', 'Dorian'],
    'phr': ['Phr', 'phr', 'PHR', 'phrygian', 'Phrygian'],
    'lyd': ['Lyd', 'lyd', 'LYD', 'lydian', 'Lydian'],
    'loc': ['Loc', 'loc', 'LOC', 'locrian', 'Locrian'],
}
LEN_FORMS = [(None, 0, None)] * 6 + [(2, 0, None), (3, 0, None), (4, 0, None), (6, 0, None), (8, 0, None), (1, 0, None),
                                     (None, 1, None), (None, 2, None), (None, 3, None), (None, 1, 2), (None, 1, 4), (None, 1, 3),
                                     (3, 1, 2), (3, 1, None), (3, 1, 4), (1, 1, 2), (5, 1, 4), (7, 1, 8), (2, 1, 1), (12, 0, None)]
DECOS = '.~HLMOPSTuv'
INVALID = ['z', 'z2', 'x', '!f!', '*', '#', '$', '+', '@', ';', '?', '{', '&', 'y', 'Z', 'K', 'w', '\\']
WORDS = ['The', 'Kesh', 'Jig', 'reel', 'No', '2', 'Trad', 'Anon', 'in', 'A', "O'Neill", 'slow', '(air)', 'set', 'dance']


def split_spelling(sp):
    """'G#Mix' -> ('G', '#', 'mix')"""
    tonic, rest = sp[0], sp[1:]
    acc = ''
    if rest[:1] in ('#', 'b'):
        acc, rest = rest[0], rest[1:]
    return tonic, acc, rest.lower()


class Gen:
    def __init__(self, rng, ap):
        self.rng = rng
        self.T = ap.ABCTune
        self.spellings = [(sig, sp) for sig, sps in self.T.SIG_TO_KEYS.items() for sp in sps]
        self.key_cursor = rng.randrange(len(self.spellings))
        self.hist = set()

    # ---------------------------------------------------------------- fields
    def key(self, plain=False):
        rng = self.rng
        # walk through the module's own key table so that every spelling is visited quickly
        self.key_cursor = (self.key_cursor + rng.choice([1, 1, 1, 7, 13])) % len(self.spellings)
        sig, sp = self.spellings[self.key_cursor]
        tonic, acc, mode = split_spelling(sp)
        word = rng.choice(MODE_WORDS.get(mode, [mode]))
        if rng.random() < 0.12:
            tonic = tonic.lower()
        k = {'tonic': tonic, 'acc': acc, 'mode': word, 'sp': rng.choice(['', '', ' ', '  ']), 'exp': False, 'accs': []}
        if not plain and rng.random() < 0.3:
            k['exp'] = rng.random() < 0.35
            for _ in range(rng.choice([1, 1, 2, 3])):
                k['accs'].append((rng.choice(['^', '_', '=', '^', '_']), rng.choice('abcdefgABCDEFG')))
            if rng.random() < 0.15 and (k['mode'] or k['exp']):
                k['accs'].insert(rng.randrange(1, len(k['accs']) + 1), ('', rng.choice('acdfg')))
        self.hist.add('key:sig%+d' % sig)
        self.hist.add('key:mode=' + (mode or 'maj'))
        if k['accs']:
            self.hist.add('key:explicit-accidentals' + ('+exp' if k['exp'] else ''))
        return ('K', k)

    def meter(self):
        rng = self.rng
        r = rng.random()
        if r < 0.1:
            return ('MC', rng.choice(['C', 'c']))
        if r < 0.2:
            return ('MCUT', rng.choice(['C|', 'c|']))
        if r < 0.27:
            return ('MNONE', rng.choice(['none', 'None', 'NONE']))
        # ratios on both sides of (and at) the 0.75 threshold of the default unit length
        n, d = rng.choice([(4, 4), (3, 4), (6, 8), (2, 4), (9, 8), (12, 8), (2, 2), (3, 2), (5, 8), (7, 8), (5, 4), (3, 8),
                           (23, 32), (47, 64), (7, 10), (11, 16), (13, 16), (3, 4), (6, 8), (1, 1), (11, 15), (8, 11),
                           (74, 100), (76, 100), (18, 25), (71, 100)])
        return ('M', n, d)

    def unit(self):
        rng = self.rng
        d = rng.choice([1, 2, 4, 8, 8, 8, 16, 16, 32, 64, 4])
        if d == 1 and rng.random() < 0.5:
            return ('L', 1, 1, True)
        return ('L', 1, d, False)

    def tempo(self):
        rng = self.rng
        r = rng.random()
        rate = rng.choice([60, 80, 90, 100, 120, 144, 180, 200, 40, 72, 132, 33, 250, 1, 7, 999])
        if r < 0.6:
            beats = [rng.choice([(1, 4), (1, 4), (1, 8), (3, 8), (1, 2), (1, 16), (3, 16), (1, 1), (5, 8), (1, 3), (2, 5)])]
            if rng.random() < 0.15:
                beats += [rng.choice([(1, 4), (3, 8), (1, 8)]) for _ in range(rng.choice([1, 3]))]
            pre = rng.choice(['', '', '', '"Allegro" ', '"slow"'])
            eq = rng.choice(['=', '=', ' = ', '= '])
            suf = rng.choice(['', '', '', ' "lively"'])
            self.hist.add('tempo:n/d=r' + ('(multi-beat)' if len(beats) > 1 else ''))
            return ('Q', beats, rate, pre, eq, suf)
        self.hist.add('tempo:bare')
        return ('QOLD', rate, rng.choice(['', '', '', 'C=', 'C = ', '=', 'C']))

    def text(self):
        rng = self.rng
        return ' '.join(rng.choice(WORDS) for _ in range(rng.choice([1, 2, 3])))

    def other(self):
        rng = self.rng
        return ('O', rng.choice('ABDFGHINORSUWZmrsw'), self.text())

    # ---------------------------------------------------------------- music
    def note(self, letters, lenform=None, allow_double=False):
        rng = self.rng
        r = rng.random()
        acc = ''
        if r < 0.3:
            acc = rng.choice(['^', '_', '=', '^', '_'])
        if allow_double and rng.random() < 0.5:
            acc = rng.choice(['^^', '__'])
        letter = rng.choice(letters)
        if rng.random() < 0.4:
            letter = letter.swapcase()
        octs = ''
        r = rng.random()
        if r < 0.12:
            octs = "'" if letter.islower() else ','
        elif r < 0.16:
            octs = rng.choice(["''", ",,", "',", ",'", "'''", ",,,"])
        return ('N', acc, letter, octs, rng.choice(LEN_FORMS) if lenform is None else lenform)

    def bar_notes(self, maxn):
        """the tokens of one bar: notes on a small letter pool (so that explicit accidentals meet later
        notes of the same letter in other octaves), decorations, slurs, annotations, broken-rhythm pairs."""
        rng = self.rng
        pool = rng.sample('ABCDEFG', rng.choice([1, 2, 2, 3, 4]))
        n = rng.randrange(1, maxn + 1)
        toks = []
        i = 0
        while i < n:
            if rng.random() < 0.12:
                toks.append(('DE', rng.choice(DECOS)))
            if rng.random() < 0.05:
                toks.append(('AN', rng.choice(['Am', 'G7', 'D', '^up', '_lo', '<x', 'c', '', 'Bb', '@1,2 z', 'fine'])))
            if rng.random() < 0.04:
                toks.append(('SL', '('))
            if i + 1 < n and rng.random() < 0.18:
                lf = rng.choice(LEN_FORMS)
                k = rng.choice([1, 1, 1, 2, 2, 3])
                gt = rng.random() < 0.6
                toks.append(self.note(pool, lf))
                toks.append(('BR', gt, k))
                toks.append(self.note(pool, lf))
                self.hist.add('broken:%s%d' % ('>' if gt else '<', k))
                i += 2
            else:
                toks.append(self.note(pool))
                i += 1
            if rng.random() < 0.03:
                toks.append(('SL', ')'))
        return toks

    def inline_field(self):
        rng = self.rng
        r = rng.random()
        sp = rng.choice(['', '', ' '])
        if r < 0.35:
            f = self.key()
        elif r < 0.55:
            f = self.unit()
        elif r < 0.75:
            f = self.tempo()
        elif r < 0.9:
            f = self.meter()
        else:
            f = rng.choice([self.other(), ('T', self.text()), ('C', self.text())])
        self.hist.add('inline:' + f[0])
        return ('I', f, sp)

    def body(self, budget, repeats=True, inline=True):
        """a balanced token sequence: bars separated by bar / repeat tokens (see DESIGN 6.4), at most
        `budget` tokens.  Returns the flat token list (line breaks are chosen by `split_lines`)."""
        rng = self.rng
        toks = []
        pending = None      # count of the open forward repeat
        have_notes = False  # a note has been emitted (time > 0)
        sec_notes = False   # the current section (since the last section start) has a note

        def end_tok(cnt):   # closes a repeat played `cnt` times
            return ('B', cnt - 1, rng.choice(['|', '|', '|]', '||']), 0)

        def same_time_double_bars(where, p=0.22):
            """with probability p: one or two double bars (no colons) directly after the bar token just emitted, i.e. at a
            time where a section boundary ALREADY exists (after `:|`, after another double bar) or where none may be
            created (time 0, inside an open repeat): they notate nothing — no section, no additional play of anything"""
            if rng.random() < p:
                for _ in range(rng.choice([1, 1, 1, 2])):
                    toks.append(('B', 0, rng.choice(['||', '|]', '[|', '||', '|]|', '[|]']), 0))
                self.hist.add('same-time-double-bar:' + where)

        r = rng.random()
        if repeats and r < 0.2:
            cnt = rng.choice([2, 2, 2, 3, 4])
            toks.append(('B', 0, rng.choice(['|', '|', '[|', '||']), cnt - 1))
            pending = cnt
        elif r < 0.3:
            toks.append(('B', 0, rng.choice(['|', '[|', '||']), 0))
            same_time_double_bars('at-time-0', 0.15)
        nbars = rng.choice([1, 2, 3, 4, 5, 6, 8])
        for b in range(nbars):
            if b > 0 and len(toks) > budget - 8:
                break
            if inline and rng.random() < 0.12:
                toks.append(self.inline_field())
            toks.extend(self.bar_notes(min(6, max(1, (budget - len(toks)) // 2))))
            have_notes = sec_notes = True
            last = b == nbars - 1 or len(toks) > budget - 8
            r = rng.random()
            if pending:
                if last or r < 0.4:
                    # close it (optionally opening the next one)
                    if not last and rng.random() < 0.4:
                        if rng.random() < 0.5:
                            toks.append(('CO', 2 * (pending - 1)))
                            self.hist.add('repeat:colon-only-x%d' % pending)
                        else:
                            nxt = rng.choice([2, 2, 3])
                            toks.append(('B', pending - 1, rng.choice(['|', '||', '|]', '|][|']), nxt - 1))
                            self.hist.add('repeat:x%d' % pending)
                            pending = nxt
                    else:
                        toks.append(end_tok(pending))
                        self.hist.add('repeat:x%d' % pending)
                        pending = None
                        same_time_double_bars('after-repeat-end')
                        if not last and rng.random() < 0.3:
                            # the next repeat opens with its own token right after the closing one (`:| |:`)
                            pending = rng.choice([2, 2, 3])
                            toks.append(('B', 0, rng.choice(['|', '|', '[|']), pending - 1))
                            self.hist.add('repeat:adjacent-close-open')
                    sec_notes = False
                elif r < 0.5:
                    toks.append(('B', 0, rng.choice(['||', '|]']), 0))   # double bar inside a repeat: no new section
                    self.hist.add('repeat:double-bar-inside')
                    same_time_double_bars('inside-repeat', 0.1)
                else:
                    toks.append(('B', 0, '|', 0))
            else:
                if last:
                    if repeats and r < 0.15:
                        cnt = rng.choice([2, 2, 3])
                        toks.append(end_tok(cnt))
                        self.hist.add('repeat:one-sided-x%d' % cnt)
                        same_time_double_bars('after-repeat-end')
                    elif r < 0.6:
                        toks.append(('B', 0, rng.choice(['|', '|]', '||', '|]']), 0))
                        same_time_double_bars('at-the-end', 0.1)
                elif repeats and r < 0.2:
                    cnt = rng.choice([2, 2, 2, 3, 4])
                    toks.append(('B', 0, rng.choice(['|', '|', '||', '[|']), cnt - 1))
                    pending = cnt
                    sec_notes = False
                elif repeats and r < 0.3:
                    cnt = rng.choice([2, 2, 3])
                    toks.append(end_tok(cnt))
                    self.hist.add('repeat:one-sided-x%d' % cnt)
                    same_time_double_bars('after-repeat-end')
                    sec_notes = False
                elif r < 0.42:
                    toks.append(('B', 0, rng.choice(['||', '|]', '[|', '|]|']), 0))
                    self.hist.add('double-bar')
                    same_time_double_bars('after-double-bar')
                    if repeats and rng.random() < 0.25:
                        pending = rng.choice([2, 2, 3])
                        toks.append(('B', 0, rng.choice(['|', '[|']), pending - 1))
                        self.hist.add('repeat:adjacent-double-bar-open')
                    sec_notes = False
                else:
                    toks.append(('B', 0, '|', 0))
        if pending:
            # budget ran out inside a repeat: one more bar, then close it
            toks.extend(self.bar_notes(2))
            toks.append(end_tok(pending))
            self.hist.add('repeat:x%d' % pending)
            same_time_double_bars('after-repeat-end')
        return toks

    def split_lines(self, toks):
        """break the token list into music lines, never next to a broken-rhythm token"""
        rng = self.rng
        lines, cur = [], []
        for i, t in enumerate(toks):
            cur.append(t)
            if t[0] != 'BR' and len(cur) >= 3 and rng.random() < 0.12 and i + 1 < len(toks) and toks[i + 1][0] != 'BR':
                if rng.random() < 0.2:
                    cur.append(('CT',))
                lines.append(cur)
                cur = []
        if cur:
            lines.append(cur)
        return lines

    def header(self, ref, skip=()):
        """tune header: X first, K last (ABC 2.1), the others in random order"""
        rng = self.rng
        fs = []
        if 'T' not in skip:
            fs.append(('T', self.text()))
            if rng.random() < 0.15:
                fs.append(('T', self.text()))
        if rng.random() < 0.3:
            fs.append(('C', self.text()))
        if 'M' not in skip and rng.random() < 0.8:
            fs.append(self.meter())
        if 'L' not in skip and rng.random() < 0.6:
            fs.append(self.unit())
        if 'Q' not in skip and rng.random() < 0.6:
            fs.append(self.tempo())
        for _ in range(rng.choice([0, 0, 1, 2])):
            fs.append(self.other())
        rng.shuffle(fs)
        fs = [('X', ref)] + fs + [self.key()]
        return [('F', f, rng.choice(['', '', ' '])) for f in fs]

    def tune(self, ref, skip=(), budget=None, repeats=True):
        rng = self.rng
        budget = budget or rng.choice([4, 10, 20, 30, 45, 60])
        lines = self.header(ref, skip)
        toks = self.body(budget, repeats=repeats)
        mus = self.split_lines(toks)
        out = list(lines)
        for i, m in enumerate(mus):
            out.append(('M', m))
            if i + 1 < len(mus) and rng.random() < 0.06:
                # an information field line in the tune body
                f = rng.choice([self.key, self.unit, self.tempo, self.meter, self.other])()
                self.hist.add('body-field:' + f[0])
                out.append(('F', f, ''))
        return out

    def across_bar_tune(self, ref):
        """the class of known finding F-C04-6: a balanced tune in which one broken-rhythm pair has a bar token
        between its two notes (before or after the marker): a plain bar (harmless), a double bar, `|:`, `:|`,
        `::` / `:|:` — with notes before / after, same length form for the pair, no field between its notes."""
        rng = self.rng
        lf = rng.choice(LEN_FORMS[:14])
        pool = rng.sample('ABCDEFG', 3)
        n1, n2 = self.note(pool, lf), self.note(pool, lf)
        br = ('BR', rng.random() < 0.5, rng.choice([1, 1, 2, 3]))
        some = lambda lo, hi: [self.note(pool) for _ in range(rng.randrange(lo, hi + 1))]
        kind = rng.choice(['plain', 'double', 'forward', 'backward', 'both', 'both-colons'])
        cnt = rng.choice([1, 1, 2])            # colons of the repeat (:| = 1 -> played twice)
        bar = {'plain': ('B', 0, '|', 0), 'double': ('B', 0, rng.choice(['||', '|]', '[|']), 0), 'forward': ('B', 0, '|', cnt),
               'backward': ('B', cnt, '|', 0), 'both': ('B', cnt, '|', cnt), 'both-colons': ('CO', 2 * cnt)}[kind]
        mid = [br, bar] if rng.random() < 0.5 else [bar, br]
        toks = []
        if kind in ('backward', 'both', 'both-colons'):
            toks += some(0, 2) + ([('B', 0, '|', cnt)] if rng.random() < 0.7 or cnt > 1 else []) + some(0, 3)
        else:
            toks += some(0, 3)
        toks += [n1] + mid + [n2] + some(0, 3)
        if kind in ('forward', 'both', 'both-colons'):
            toks += [('B', cnt, '|', 0)] + some(0, 2)
        self.hist.add('across:' + kind + ('/marker-first' if mid[0] is br else '/bar-first'))
        return self.header(ref, ()) + [('M', toks)]

    def file_header(self):
        rng = self.rng
        fs = []
        skip = set()
        for kind, g in (('M', self.meter), ('L', self.unit), ('Q', self.tempo)):
            if rng.random() < 0.45:
                fs.append(g())
                skip.add(kind)
        for _ in range(rng.choice([0, 1, 2])):
            fs.append(self.other())
        if not fs:
            fs.append(self.other())
        rng.shuffle(fs)
        return [('F', f, '') for f in fs], skip

    # ---------------------------------------------------------------- unsupported constructs
    def spoil(self, lines, kind):
        """insert one unsupported construct into an otherwise supported tune"""
        rng = self.rng
        lines = [list(l) if l[0] == 'F' else ('M', list(l[1])) for l in lines]
        mus = [i for i, l in enumerate(lines) if l[0] == 'M']
        hdr_end = mus[0] if mus else len(lines)
        if kind in ('parts', 'voices'):
            f = ('P', rng.choice(['A', 'AB', '(AB)2'])) if kind == 'parts' else ('V', rng.choice(['1', 'T1', '2 clef=bass']))
            r = rng.random()
            if r < 0.5 or not mus:
                lines.insert(rng.randrange(1, hdr_end + 1) if r < 0.4 or not mus else rng.choice(mus), ('F', f, ''))
            else:
                m = lines[rng.choice(mus)][1]
                pos = self._safe_pos(m)
                m.insert(pos, ('I', f, ''))
            return lines
        if not mus:
            lines.append(('M', [self.note('ABC')]))
            mus = [len(lines) - 1]
        m = lines[rng.choice(mus)][1]
        pos = self._safe_pos(m)
        if kind == 'chords':
            ch = '[' + ''.join(tok_text(self.note('CEGA', rng.choice([(None, 0, None), (2, 0, None)])))
                               for _ in range(rng.choice([1, 2, 3]))) + ']'
            m.insert(pos, ('CH', ch))
        elif kind == 'tuplets':
            m.insert(pos, ('TU', rng.choice(['(3', '(2', '(5', '(3'])))
        elif kind == 'variant':
            m.insert(pos, ('VE', rng.choice(['|1', ':|2', '[1', '|[1', '| 1', '|1,3', '|1-3', '::|2', '|]1'])))
        elif kind == 'range':
            up = rng.random() < 0.5
            m.insert(pos, ('N', rng.choice(['', '^', '_']), rng.choice('abg' if up else 'CDE'), ("'" if up else ',') * rng.choice([4, 5, 6, 7]),
                           (None, 0, None)))
        elif kind == 'double-accidental':
            m.insert(pos, ('N', rng.choice(['^^', '__']), rng.choice('ABCDEFGabcdefg'), '', rng.choice(LEN_FORMS)))
        elif kind == 'invalid':
            m.insert(pos, ('IV', rng.choice(INVALID)))
            if m[pos][1] == '\\' and pos == len(m) - 1:
                m.append(self.note('ABC'))
        return lines

    def _safe_pos(self, m):
        """an insertion position that is not between a broken-rhythm token and its note, and not
        directly after a bar token (where '[' or a digit would be absorbed by the bar patterns)"""
        rng = self.rng
        ok = [i for i in range(len(m) + 1)
              if not (i > 0 and m[i - 1][0] in ('BR', 'B', 'CO')) and not (i < len(m) and m[i][0] in ('B', 'CO', 'BR'))
              and not (i > 0 and m[i - 1][0] == 'CT')]
        return rng.choice(ok) if ok else 0

    # ---------------------------------------------------------------- malformed / quirk stream
    def quirk_tune(self, ref):
        """token soup around the grammar: everything the model claims to follow the code on, valid or not"""
        rng = self.rng
        lines = self.header(ref) if rng.random() < 0.8 else [('F', ('X', ref), '')]
        # header damage
        r = rng.random()
        hdr_mut = [
            lambda: ('MBAD', rng.choice(['4', 'x/y', '2+3/8', 'common'])),
            lambda: ('LBAD', rng.choice(['eighth', '1/x', 'a/8'])),
            lambda: ('QBAD', rng.choice(['fast', '1/4=', 'abc', '"x" y'])),
            lambda: ('QSTR', rng.choice(['"Andante"', '""'])),
            lambda: ('KBAD', rng.choice(['', 'none', 'HP', 'Hp', '^f', 'treble'])),
            lambda: ('M', rng.choice([4, 3, 0]), rng.choice([0, 0, 4])),
            lambda: ('L', rng.choice([0, 1, 1]), rng.choice([0, 1, 8]), False),
            lambda: ('Q', [(rng.choice([1, 0]), rng.choice([4, 0]))], rng.choice([0, 120]), '', '=', ''),
            lambda: ('QOLD', 0, ''),
            lambda: self.meter(), lambda: self.meter(), lambda: self.unit(), lambda: self.tempo(), lambda: self.key(),
            lambda: ('K', {'tonic': rng.choice('ABCDEFG'), 'acc': rng.choice(['', '#', 'b']),
                           'mode': rng.choice(['mzz', 'Mix', 'm', 'major', 'loc', 'ma', 'mi', 'min7']), 'sp': '', 'exp': rng.random() < 0.3,
                           'accs': [(rng.choice(['^^', '__', '^', '=', '']), rng.choice('abcdefg'))] if rng.random() < 0.5 else []}),
            lambda: ('XBAD', rng.choice(['abc', '1a', ''])),
            lambda: ('X', rng.choice([ref, 0, 1])),
            lambda: ('T', self.text()), lambda: ('C', self.text()), lambda: ('P', 'AB'), lambda: ('V', '1'),
        ]
        for _ in range(rng.choice([0, 0, 1, 1, 2])):
            f = rng.choice(hdr_mut)()
            if f[0] == 'K' and f[1]['accs'] and f[1]['accs'][0][0] == '' and not (f[1]['mode'] or f[1]['exp']):
                f[1]['accs'] = []
            lines.insert(rng.randrange(0, len(lines) + 1), ('F', f, ''))
            self.hist.add('quirk-field:' + f[0])
        # music soup
        nlines = rng.choice([0, 1, 1, 2, 3])
        for _ in range(nlines):
            toks = []
            for _ in range(rng.randrange(1, 12)):
                r = rng.random()
                if r < 0.5:
                    lf = rng.choice(LEN_FORMS + [(0, 0, None), (0, 0, None), (None, 4, None), (1, 0, None), (2, 0, None)])
                    if rng.random() < 0.03:
                        lf = rng.choice([(None, 1, 0), (3, 1, 0), (None, 2, 4), (3, 2, None), (3, 2, 4)])
                    t = self.note(rng.choice(['ABCDEFG', 'CF']), lf, allow_double=rng.random() < 0.05)
                    if rng.random() < 0.05:
                        t = ('N', t[1], t[2], rng.choice(["''''", ",,,,,", "'''''", ",,,,"]), t[4])
                    toks.append(t)
                elif r < 0.62:
                    toks.append(('BR', rng.random() < 0.5, rng.choice([1, 1, 2, 3, 4, 6])))
                elif r < 0.8:
                    c1, c2 = rng.choice([(0, 0), (0, 0), (1, 0), (0, 1), (1, 1), (2, 0), (0, 2), (2, 2), (1, 2), (3, 0)])
                    toks.append(('B', c1, rng.choice(['|', '|', '||', '|]', '[|', ']', '[', '|||']), c2))
                elif r < 0.86:
                    toks.append(('CO', rng.choice([1, 2, 2, 3, 4, 4, 6])))
                elif r < 0.9:
                    toks.append(self.inline_field())
                elif r < 0.975:
                    toks.append(rng.choice([('TI',), ('TI',), ('SL', '('), ('SL', ')'), ('DE', rng.choice(DECOS)), ('AN', rng.choice(['A', 'x y', '']))]))
                elif r < 0.985:
                    toks.append(('I', rng.choice(hdr_mut)(), ''))
                else:
                    toks.append(rng.choice([('CH', '[CE]'), ('TU', '(3'), ('VE', '|1'), ('IV', rng.choice(INVALID[:-1]))]))
            toks = self._sanitise(toks)
            if toks:
                lines.append(('M', toks))
            if rng.random() < 0.1:
                lines.append(('F', rng.choice(hdr_mut)(), ''))
        return lines

    def _sanitise(self, toks):
        """drop what the token grammar cannot render unambiguously: a tie after a bar (that text is a
        variant ending), inline fields whose content is empty or contains ']'."""
        out = []
        for t in toks:
            if t[0] == 'TI' and out and out[-1][0] == 'B':
                continue
            if t[0] == 'I':
                a, b = field_text(t[1])
                if not (t[2] + b).strip() or ']' in b or (t[2] + b) != (t[2] + b).strip() and False:
                    continue
                if t[1][0] == 'K' and t[1][1]['accs'] and t[1][1]['accs'][0][0] == '' and not (t[1][1]['mode'] or t[1][1]['exp']):
                    continue
                if b != b.strip():
                    continue
            out.append(t)
        return out


# ============================================================================= oracle (ABC 2.1 rules, written from the property text)
FIFTHS = {'F': -1, 'C': 0, 'G': 1, 'D': 2, 'A': 3, 'E': 4, 'B': 5}
MODE_OFFSET = {'maj': 0, 'ion': 0, 'mix': 1, 'dor': 2, 'min': 3, 'aeo': 3, 'phr': 4, 'loc': 5, 'lyd': -1}
MODE_NAME = {'maj': 'MAJOR', 'ion': 'MAJOR', 'mix': 'MIXOLYDIAN', 'dor': 'DORIAN', 'min': 'MINOR', 'aeo': 'MINOR',
             'phr': 'PHRYGIAN', 'loc': 'LOCRIAN', 'lyd': 'LYDIAN'}
PITCH_CLASS = {'C': 0, 'D': 2, 'E': 4, 'F': 5, 'G': 7, 'A': 9, 'B': 11}
ACC_VAL = {'^': 1, '_': -1, '=': 0}
TOL = F(1, 2 ** 40)


class Expect(Exception):
    """the ABC rules (as the property reads them) say this tune must be rejected with this class"""


class OutOfScope(Exception):
    """the tune is outside what the oracle can judge (never raised on the supported streams)"""


def o_key(k):
    """(signature, accidentals dict, pitch class of the tonic, mode name) by the circle of fifths"""
    w = k['mode'].lower()
    m = 'maj' if w == '' else 'min' if w == 'm' else w[:3]
    if m not in MODE_OFFSET:
        raise OutOfScope('mode ' + w)
    tonic = k['tonic'].upper()
    shift = {'': 0, '#': 1, 'b': -1}[k['acc']]
    sig = FIFTHS[tonic] + 7 * shift - MODE_OFFSET[m]
    if not -7 <= sig <= 7:
        raise OutOfScope('signature %d' % sig)
    acc = {}
    if not k['exp']:
        for l in ('FCGDAEB'[:sig] if sig > 0 else 'BEADGCF'[:-sig]):
            acc[l] = 1 if sig > 0 else -1
    for a, l in k['accs']:
        if a in ('^^', '__'):
            raise Expect('ABCParseError')
        if a:
            acc[l.upper()] = ACC_VAL[a]
    return sig, acc, (PITCH_CLASS[tonic] + shift) % 12, MODE_NAME[m]


def o_len_factor(l):
    num, sl, den = l
    if sl == 0:
        return F(1) if num is None else F(num)
    if num is None and den is None:
        return F(1, 2 ** sl)
    if sl != 1:
        raise OutOfScope('length ' + len_text(l))
    return F(1 if num is None else num, 2 if den is None else den)


def o_eval(lines):
    """evaluate one tune (file header lines already prepended) by the ABC 2.1 rules.
    returns dict(ref, notes=[(pitch, onset, dur)], played=[(pitch, dur)], tempos, meters, keys) with
    exact Fractions; raises Expect(cls) when the rules make the tune an error."""
    unit = None
    meter = 'absent'
    htempo = None
    ref = 0
    key_acc = {}
    keys, meters, tempos = [], [], []
    in_header = True
    time = F(0)
    qpm = None
    notes = []          # [pitch, onset, dur]
    bar_acc = {}
    # player state
    played, section, open_count = [], [], None
    first_error = None

    def finish_header():
        nonlocal unit, qpm
        if unit is None:
            if meter in ('absent', 'none'):
                unit = F(1, 8)
            else:
                unit = F(1, 16) if F(meter[0], meter[1]) < F(3, 4) else F(1, 8)
        if htempo is not None:
            b, r = htempo
            q = 4 * (unit if b is None else b) * r
            if q <= 0:
                raise OutOfScope('tempo 0')
            tempos.append((F(0), q))
            qpm = q

    def field(f, header):
        nonlocal unit, meter, htempo, ref, key_acc, qpm
        kd = f[0]
        if kd == 'X':
            ref = f[1]
        elif kd == 'K':
            sig, acc, pc, mode = o_key(f[1])
            key_acc = acc
            keys.append((time, pc, mode))
        elif kd in ('MC', 'MCUT', 'MNONE', 'M'):
            m = {'MC': (4, 4), 'MCUT': (2, 2), 'MNONE': 'none'}.get(kd) or (f[1], f[2])
            if header:
                if meter != 'absent':
                    raise OutOfScope('two meters in the header')
                meter = m
            if m != 'none':
                meters.append((time, m[0], m[1]))
        elif kd == 'L':
            unit = F(f[1], f[2])
            if unit <= 0:
                raise OutOfScope('unit 0')
        elif kd in ('Q', 'QOLD'):
            b = sum((F(*x) for x in f[1]), F(0)) if kd == 'Q' else None
            r = f[2] if kd == 'Q' else f[1]
            if header:
                htempo = (b, r)
            else:
                q = 4 * (unit if b is None else b) * r
                if q <= 0:
                    raise OutOfScope('tempo 0')
                tempos.append((time, q))
                qpm = q
        elif kd in ('T', 'C', 'O', 'QSTR'):
            pass
        elif kd == 'P':
            raise Expect('PartError')
        elif kd == 'V':
            raise Expect('MultiVoiceError')
        else:
            raise OutOfScope('field ' + kd)

    for ln in lines:
        if ln[0] == 'F':
            field(ln[1], in_header)
            continue
        if in_header:
            finish_header()
            in_header = False
        pending = None
        for t in ln[1]:
            kd = t[0]
            if kd == 'N':
                L = t[2].upper()
                if t[1] in ('^^', '__'):
                    raise Expect('ABCParseError')
                if t[1]:
                    a = ACC_VAL[t[1]]
                    bar_acc[L] = a
                elif L in bar_acc:
                    a = bar_acc[L]
                else:
                    a = key_acc.get(L, 0)
                pitch = 60 + PITCH_CLASS[L] + (12 if t[2].islower() else 0) + a + 12 * (t[3].count("'") - t[3].count(','))
                if not 0 <= pitch <= 127:
                    raise Expect('ABCParseError')
                dur = unit * o_len_factor(t[4]) * 240 / (qpm or 120)
                if dur <= 0:
                    raise OutOfScope('zero-length note')
                n = [pitch, time, dur]
                time += dur
                if pending:
                    gt, k = pending
                    p = notes[-1] if notes else None
                    if p is None or p[2] != dur or p[1] + p[2] != n[1]:
                        raise OutOfScope('broken rhythm between unequal notes')
                    big, small = dur * (2 - F(1, 2 ** k)), dur * F(1, 2 ** k)
                    if gt:
                        p[2], n[1], n[2] = big, p[1] + big, small
                    else:
                        p[2], n[1], n[2] = small, p[1] + small, big
                    pending = None
                notes.append(n)
                section.append(n)
            elif kd == 'BR':
                if pending:
                    raise OutOfScope('two broken rhythm marks')
                pending = (t[1], t[2])
            elif kd in ('B', 'CO'):
                bar_acc = {}
                if kd == 'CO':
                    if t[1] % 2:
                        raise Expect('RepeatParseError')
                    back = fwd = t[1] // 2 + 1
                    double = False
                else:
                    back = t[1] + 1 if t[1] else None
                    fwd = t[3] + 1 if t[3] else None
                    double = len(t[2]) >= 2
                if back is None and fwd is None:
                    if double and open_count is None:
                        played.extend(section)      # a double bar starts a new section (played once so far)
                        section = []
                    continue
                if open_count is not None and back != open_count:
                    raise Expect('RepeatParseError')
                if back is not None:
                    if not notes:
                        raise Expect('RepeatParseError')
                    if not section:
                        raise OutOfScope('empty repeated section')
                    played.extend(section * back)
                else:
                    played.extend(section)
                section = []
                open_count = fwd
            elif kd == 'I':
                field(t[1], False)
            elif kd in ('AN', 'DE', 'SL', 'CT'):
                pass
            elif kd == 'CH':
                raise Expect('ChordError')
            elif kd == 'TU':
                raise Expect('TupletError')
            elif kd == 'VE':
                raise Expect('VariantEndingError')
            elif kd == 'IV':
                raise Expect('InvalidCharacterError')
            else:
                raise OutOfScope('token ' + kd)
        if pending:
            raise OutOfScope('broken rhythm at the end of a line')
    if in_header:
        finish_header()
    if open_count is not None:
        raise Expect('RepeatParseError')
    played.extend(section)
    return {'ref': ref, 'notes': notes, 'played': played, 'tempos': tempos, 'meters': meters, 'keys': keys}


def close(x, want):
    return abs(F(x) - want) <= TOL * max(1, abs(want))


def o_check_tune(sl, music_pb2, ns, want):
    """compare what the real parser produced with what the rules assign; None = as notated"""
    if ns.reference_number != want['ref']:
        return 'reference number %d, header says %d' % (ns.reference_number, want['ref'])
    if len(ns.notes) != len(want['notes']):
        return '%d notes, %d notated' % (len(ns.notes), len(want['notes']))
    for i, (n, (p, on, du)) in enumerate(zip(ns.notes, want['notes'])):
        if n.pitch != p:
            return 'note %d: pitch %d, notated %d' % (i, n.pitch, p)
        if not close(n.start_time, on) or not close(n.end_time, on + du):
            return 'note %d: [%r, %r], notated onset %s duration %s' % (i, n.start_time, n.end_time, on, du)
    if [(t.numerator, t.denominator) for t in ns.time_signatures] != [(a, b) for _, a, b in want['meters']] or \
            not all(close(t.time, w[0]) for t, w in zip(ns.time_signatures, want['meters'])):
        return 'time signatures %s, notated %s' % ([(t.time, t.numerator, t.denominator) for t in ns.time_signatures], want['meters'])
    KS = music_pb2.NoteSequence.KeySignature
    if [(t.key, t.mode) for t in ns.key_signatures] != [(pc, getattr(KS, m)) for _, pc, m in want['keys']] or \
            not all(close(t.time, w[0]) for t, w in zip(ns.key_signatures, want['keys'])):
        return 'key signatures %s, notated %s' % ([(t.time, t.key, t.mode) for t in ns.key_signatures], want['keys'])
    if [t.qpm for t in ns.tempos] != [float(q) for _, q in want['tempos']] or \
            not all(close(t.time, w[0]) for t, w in zip(ns.tempos, want['tempos'])):
        return 'tempos %s, notated %s' % ([(t.time, t.qpm) for t in ns.tempos], [(str(a), str(b)) for a, b in want['tempos']])
    if want['notes'] and not close(ns.total_time, want['notes'][-1][1] + want['notes'][-1][2]):
        return 'total_time %r' % ns.total_time
    # repeats: the expansion of the section structure is the played order
    try:
        ex = sl.expand_section_groups(ns)
    except Exception as e:  # pylint: disable=broad-except
        return 'expand_section_groups raised %s: %s' % (type(e).__name__, e)
    if [n.pitch for n in ex.notes] != [p for p, _, _ in want['played']]:
        return 'expanded pitch order %s, played order %s' % ([n.pitch for n in ex.notes], [p for p, _, _ in want['played']])
    t = F(0)
    for i, (n, (p, _, du)) in enumerate(zip(ex.notes, want['played'])):
        if not close(n.start_time, t) or not close(n.end_time, t + du):
            return 'expanded note %d: [%r, %r], played onset %s duration %s' % (i, n.start_time, n.end_time, t, du)
        t += du
    return None


def o_book(ap, sl, music_pb2, sections, text):
    """the property on one tunebook: every supported tune parses to what it notates, every tune the
    rules reject appears exactly once in the exception list (in order, right class) and removing the
    rejected tunes does not change any other result.  returns (failure or None, tags)"""
    tags = []
    hdr = []
    secs = list(sections)
    if len(secs) > 1 and not any(l[0] == 'F' and l[1][0] in ('X', 'XBAD') for l in secs[0]):
        hdr = secs.pop(0)
    wants = []
    for sec in secs:
        try:
            wants.append(('ok', o_eval(hdr + sec)))
        except Expect as e:
            wants.append(('err', str(e)))
        except OutOfScope as e:
            return None, ['out-of-scope:' + str(e).split()[0]]
    refs = [w[1]['ref'] for w in wants if w[0] == 'ok']
    if len(set(refs)) != len(refs):
        return None, ['out-of-scope:duplicate-reference-numbers']
    try:
        tunes, excs = ap.parse_abc_tunebook(text)
    except Exception as e:  # pylint: disable=broad-except
        return 'parse_abc_tunebook raised %s: %s' % (type(e).__name__, e), tags
    got_exc = [type(e).__name__ for e in excs]
    want_exc = [w[1] for w in wants if w[0] == 'err']
    if got_exc != want_exc:
        return 'exception list %s, expected %s' % (got_exc, want_exc), tags
    if list(tunes.keys()) != refs:
        return 'tunes %s returned, %s notated' % (list(tunes.keys()), refs), tags
    for w in wants:
        if w[0] != 'ok':
            tags.append('rejected:' + w[1])
            continue
        r = o_check_tune(sl, music_pb2, tunes[w[1]['ref']], w[1])
        if r:
            return 'tune X:%d: %s' % (w[1]['ref'], r), tags
        tags.append('tune-ok')
    # isolation: the same book without the rejected tunes
    if want_exc and refs:
        good = [hdr] * bool(hdr) + [s for s, w in zip(secs, wants) if w[0] == 'ok']
        if len(good) == 1 and hdr:
            pass   # a lone section is never a file header: cannot be expressed as a book; skip
        else:
            import random
            text2 = book_text(good, random.Random(0), plain=True)
            try:
                tunes2, excs2 = ap.parse_abc_tunebook(text2)
            except Exception as e:  # pylint: disable=broad-except
                return 'the book without its rejected tunes raised %s' % type(e).__name__, tags
            if excs2 or list(tunes2.keys()) != refs or any(
                    tunes2[k].SerializeToString(deterministic=True) != tunes[k].SerializeToString(deterministic=True) for k in refs):
                return 'a rejected tune changed the result of another tune of the book', tags
            tags.append('isolation-checked')
    return None, tags


# ============================================================================= streams
UNSUPPORTED = {'chords': 'ChordError', 'tuplets': 'TupletError', 'variant': 'VariantEndingError',
               'parts': 'PartError', 'voices': 'MultiVoiceError', 'invalid': 'InvalidCharacterError',
               'range': 'ABCParseError', 'double-accidental': 'ABCParseError'}


def unbalance(g, lines):
    """break the repeat structure of a supported tune in one of the characterised ways"""
    rng = g.rng
    lines = [l if l[0] == 'F' else ('M', list(l[1])) for l in lines]
    mus = [l for l in lines if l[0] == 'M']
    how = rng.choice(['open', 'mismatch', 'odd-colons', 'leading-end', 'forward-twice'])
    if how == 'open':
        mus[-1][1].append(('B', 0, '|', rng.choice([1, 2])))
    elif how == 'odd-colons':
        m = rng.choice(mus)[1]
        m.insert(g._safe_pos(m), ('CO', rng.choice([1, 3, 5])))
    elif how == 'leading-end':
        mus[0][1].insert(0, ('B', rng.choice([1, 2]), '|', 0))
    elif how == 'forward-twice':
        mus[-1][1].extend([('B', 0, '|', 1), g.note('ABC'), ('B', 0, '|', 1), g.note('ABC'), ('B', 1, '|', 0)])
    else:
        mus[-1][1].extend([('B', 0, '|', 2), g.note('ABC'), ('B', 1, '|', 0)])
    return lines, how


def make_book(g, stream):
    """(sections, tags) for one tunebook of the given stream"""
    rng = g.rng
    ntunes = rng.choice([1, 1, 2, 2, 3, 4])
    skip = ()
    secs = []
    tags = []
    if ntunes >= 1 and rng.random() < 0.25 and stream != 'quirk':
        hdr, skip = g.file_header()
        secs.append(hdr)
        tags.append('file-header')
    refs = rng.sample(range(1, 60), ntunes)
    if stream == 'quirk' and ntunes > 1 and rng.random() < 0.08:
        refs[-1] = refs[0]
        tags.append('duplicate-reference-number')
    for ref in refs:
        if stream == 'supported':
            secs.append(g.tune(ref, skip))
        elif stream == 'mixed':
            if rng.random() < 0.55:
                kind = rng.choice(sorted(UNSUPPORTED))
                secs.append(g.spoil(g.tune(ref, skip, budget=rng.choice([6, 15, 30])), kind))
                tags.append('unsupported:' + kind)
            else:
                secs.append(g.tune(ref, skip))
        elif stream == 'across-bar':
            secs.append(g.across_bar_tune(ref))
        elif stream == 'repeat-errors':
            if rng.random() < 0.6:
                lines, how = unbalance(g, g.tune(ref, skip, budget=rng.choice([6, 15, 30]), repeats=rng.random() < 0.3))
                secs.append(lines)
                tags.append('unbalanced:' + how)
            else:
                secs.append(g.tune(ref, skip))
        else:
            secs.append(g.quirk_tune(ref))
    if stream == 'quirk' and rng.random() < 0.15:
        # a first section without X: is a file header if another section follows
        secs.insert(0, [l for l in g.quirk_tune(0) if not (l[0] == 'F' and l[1][0] in ('X', 'XBAD'))] or [('F', g.other(), '')])
        tags.append('first-section-without-X')
    if len(secs) == 1 and tags[:1] == ['file-header']:
        secs.append(g.tune(99, skip))
    return secs, tags


def key_books(g, thorough):
    """every spelling of the module's key table x every mode word (x tonic case when thorough) as a
    one-tune book playing the scale"""
    rng = g.rng
    scale = [('N', '', l, '', (None, 0, None)) for l in 'CDEFGABcdefgab']
    out = []
    for sig, sp in g.spellings:
        tonic, acc, mode = split_spelling(sp)
        words = MODE_WORDS.get(mode, [mode])
        words = sorted(set(words)) if thorough else rng.sample(sorted(set(words)), 2)
        for w in words:
            for tn in ([tonic, tonic.lower()] if thorough else [tonic]):
                for sp_ in (['', ' '] if w else ['']):
                    k = {'tonic': tn, 'acc': acc, 'mode': w, 'sp': sp_, 'exp': False, 'accs': []}
                    out.append([[('F', ('X', 1), ''), ('F', ('K', k), ''), ('M', list(scale))]])
    return out


# ============================================================================= run / replay
KNOWN_ACROSS = 'F-C04-6'


def broken_across_bar(sections):
    """the class of known finding F-C04-6, read off the token lists (the Python reading of `brokenOK = false`
    restricted to a completed pair): some broken-rhythm token has a first note before it and a second note
    after it on the marker's music line, and a bar token of any kind (B or CO) stands between those two notes."""
    for sec in sections:
        have_note = False      # a note has been read in this tune
        bar_since = False      # a bar token since the last note
        for ln in sec:
            if ln[0] != 'M':
                continue
            pending = None     # `broken_rhythm` is local to the music line; [a bar between the two notes so far]
            for t in ln[1]:
                kd = t[0]
                if kd == 'N':
                    if pending is not None and pending[0]:
                        return True
                    pending = None
                    have_note, bar_since = True, False
                elif kd in ('B', 'CO'):
                    bar_since = True
                    if pending is not None:
                        pending[0] = True
                elif kd == 'BR':
                    if pending is None and have_note:
                        pending = [bar_since]
    return False


def known_kind(r):
    """the failure kinds F-C04-6 produces: the expansion differs from the played order / a note clipped at a section end"""
    return fail_kind(r) in ('expanded pitch order', 'expanded note')


def judge(chk, ap, sl, music_pb2, stream, sections, text, tags):
    """oracle on one book; records a failure of the property on the real code.  A failure is attributed to
    the open known finding F-C04-6 only if the input is in exactly its class AND the failure is of its kind;
    everything else (in particular any input whose broken-rhythm pairs lie inside a bar) is a plain failure."""
    r, otags = o_book(ap, sl, music_pb2, sections, text)
    for t in otags:
        chk.count('oracle:' + stream, None, hist=t)
    if not otags:
        chk.count('oracle:' + stream, None)
    if r:
        if broken_across_bar(sections) and known_kind(r):
            chk.count('oracle:' + stream, None, hist='known:' + KNOWN_ACROSS)
            chk.fail(r, {'stream': stream, 'text': text, 'sections': sections}, finding=KNOWN_ACROSS)
            return r
        if sum(1 for f in chk.failures if f['finding'] is None) < 5:
            sections, text, r = shrink(ap, sl, music_pb2, sections, text, r)
        # the shrunk input is what gets replayed: if shrinking ended inside the class the attribution applies to it
        fnd = KNOWN_ACROSS if broken_across_bar(sections) and known_kind(r) else None
        chk.fail(r, {'stream': stream, 'text': text, 'sections': sections}, finding=fnd)
    return r


def fail_kind(r):
    """coarse class of an oracle message (what must persist while shrinking)"""
    r = re.sub(r'^tune X:\d+: ', '', r)
    return re.split(r'[\d\[]', r, 1)[0].strip()


def shrink(ap, sl, music_pb2, sections, text, r):
    """greedy reduction of a failing book: one tune, then drop lines / tokens while the oracle still
    reports the same kind of failure (bounded number of attempts)"""
    import random
    kind = fail_kind(r)
    budget = [250]

    def still(secs):
        if budget[0] <= 0:
            return None
        budget[0] -= 1
        t = book_text(secs, random.Random(0), plain=True)
        try:
            rr, _ = o_book(ap, sl, music_pb2, secs, t)
        except Exception:  # pylint: disable=broad-except
            return None
        return (t, rr) if rr and fail_kind(rr) == kind else None

    best = (sections, text, r)
    got = still(sections)
    if got:
        best = (sections, got[0], got[1])
    # one tune (keeping a file header if there is one)
    hdr = []
    secs = list(sections)
    if len(secs) > 1 and not any(l[0] == 'F' and l[1][0] in ('X', 'XBAD') for l in secs[0]):
        hdr = [secs.pop(0)]
    if len(secs) > 1:
        for sec in secs:
            cand = hdr + [sec] + ([[('F', ('X', 999), ''), ('F', ('K', {'tonic': 'C', 'acc': '', 'mode': '', 'sp': '', 'exp': False, 'accs': []}), ''),
                                    ('M', [('N', '', 'C', '', (None, 0, None))])]] if hdr else [])
            got = still(cand)
            if got:
                best = (cand, got[0], got[1])
                break
    # drop lines, then tokens
    changed = True
    while changed and budget[0] > 0:
        changed = False
        secs = best[0]
        for si in range(len(secs)):
            for li in range(len(secs[si]) - 1, -1, -1):
                ln = secs[si][li]
                cands = []
                if not (ln[0] == 'F' and ln[1][0] == 'X'):
                    cands.append(secs[:si] + [secs[si][:li] + secs[si][li + 1:]] + secs[si + 1:])
                if ln[0] == 'M':
                    for ti in range(len(ln[1]) - 1, -1, -1):
                        cands.append(secs[:si] + [secs[si][:li] + [('M', list(ln[1][:ti]) + list(ln[1][ti + 1:]))] + secs[si][li + 1:]]
                                     + secs[si + 1:])
                for cand in cands:
                    if any(len(sec) == 0 for sec in cand) or any(l[0] == 'M' and not l[1] for sec in cand for l in sec):
                        continue
                    got = still(cand)
                    if got:
                        best = (cand, got[0], got[1])
                        changed = True
                        break
                if changed:
                    break
            if changed:
                break
    return best


def run(chk):
    from note_seq import abc_parser as ap, sequences_lib as sl
    from note_seq.protobuf import music_pb2
    import logging
    from absl import logging as alog
    alog.set_verbosity(alog.FATAL)
    logging.getLogger().setLevel(logging.CRITICAL)
    generate(chk)
    chk.prove(MODULES, THEOREMS, [EXE], extra_trusted=[
        'token grammar <-> regular expressions of abc_parser.py (13 tokenising patterns, KEY/TEMPO patterns): MODELLED by the '
        'generator\'s renderer, validated only by the correspondence streams of this run',
        'rne53 as a model of IEEE-754 binary64 arithmetic (validated bit-exactly by every onset of this run)',
        'fractions.Fraction arithmetic and float(Fraction) read as exact rationals / one correct rounding',
        'protobuf repeated-field semantics; the two models of expand_section_groups (notes only: Model/C04.lean; every '
        'container: Model/C04Full.lean = C02\'s extract_subsequence model + C13\'s section table / concatenate_sequences '
        'model) are each compared with the real expansion on every run; they are proved to give the same notes for R = id on '
        'tunes whose notes are partitioned by their sections (abc_expand_models_agree), not for a general R'])
    chk.rule = ('tunebooks of 1-4 tunes rendered from a token grammar (every spelling of the module\'s key table x mode words, '
                'L:1/1..1/64, meters incl. C, C|, none and ratios around 0.75, tempo forms n/d=r / multi-beat / bare r, <= 60 music '
                'tokens with bar-scoped accidentals on small letter pools, octave marks, all length shorthands, broken rhythm 1-3 '
                'marks, inline and body fields, simple / counted / one-sided / colon-only repeats, double bars, also one or two double bars at '
                'a time where a section boundary already exists: after :|, after another double bar, at time 0, at the end) through the real '
                'parser (text) and the Lean model (tokens), outputs incl. expand_section_groups diffed exactly; streams: supported, '
                'mixed with each unsupported construct, unbalanced repeats, malformed token soup, exhaustive key table, and a small '
                'stream of broken-rhythm pairs ACROSS a bar token (the class of the open finding F-C04-6: oracle failures there '
                'of the expansion kind are attributed to it, the model reproduces them). '
                'non-trivial = distinct book whose model result is a value')
    g = Gen(chk.subrng('gen'), ap)
    trng = chk.subrng('text')
    books = []     # (stream, sections, text, tags)
    for name, secs in corpus_books():
        books.append(('corpus', secs['sections'], secs['text'], ['corpus:' + name]))
    for secs in key_books(g, chk.thorough):
        books.append(('keys', secs, book_text(secs, trng, plain=True), []))
    for stream, n in (('across-bar', chk.n(48, 600)), ('supported', chk.n(1500, 30000)), ('mixed', chk.n(900, 15000)),
                      ('repeat-errors', chk.n(500, 8000)), ('quirk', chk.n(1800, 30000))):
        for _ in range(n):
            g.hist = set()
            secs, tags = make_book(g, stream)
            books.append((stream, secs, book_text(secs, trng), tags + sorted(g.hist)))
    reqs = [book_wire(b[1]) for b in books]
    impl_res = [impl_line(ap, sl, b[2]) for b in books]
    impl = [r[0] for r in impl_res]
    model = [norm(x) for x in chk.driver(EXE, reqs)]
    for (stream, secs, text, tags), (a, outcome), b in zip(books, impl_res, model):
        chk.count(stream, text, b != 'bad-op' and not b.startswith('raise'), hist=list(tags) + sorted(set(outcome)))
        if a != b:
            chk.disagree(stream, {'text': text, 'sections': secs}, first_diff(a, b), first_diff(b, a))
    for s in ('supported', 'mixed', 'quirk'):
        i = next((i for i, bk in enumerate(books) if bk[0] == s), None)
        if i is not None:
            chk.sample({'stream': s, 'abc': books[i][2][:400], 'impl': impl[i][:300] + ' …', 'model_equal': impl[i] == model[i]})
    # ---- oracle on the real code (independent of the model)
    for (stream, secs, text, tags) in books:
        if stream in ('quirk',):
            continue
        if stream == 'corpus' and not any(t.startswith('corpus:') for t in tags):
            continue
        judge(chk, ap, sl, music_pb2, stream, secs, text, tags)
        if sum(1 for f in chk.failures if f['finding'] is None) > 20:
            break
    chk.exhaustive = False


def first_diff(a, b):
    """a window of `a` around the first token where it differs from `b`"""
    ta, tb = a.split(), b.split()
    i = next((i for i, (x, y) in enumerate(zip(ta, tb)) if x != y), min(len(ta), len(tb)))
    return '@tok%d: %s' % (i, ' '.join(ta[max(0, i - 12):i + 12]))


def corpus_books():
    out = []
    for name, obj in corpus_cases(PID):
        if 'sections' in obj and 'text' in obj:
            out.append((name, obj))
    return out


def replay(chk, obj):
    from note_seq import abc_parser as ap, sequences_lib as sl
    from note_seq.protobuf import music_pb2
    from absl import logging as alog
    alog.set_verbosity(alog.FATAL)
    print('replay C04: %s' % obj.get('what', obj.get('stream', '')))
    print(obj['text'])
    r, tags = o_book(ap, sl, music_pb2, obj['sections'], obj['text'])
    print('oracle tags:', tags)
    print('PROPERTY FAILS: %s' % r if r else 'property holds on this input')
    if r and broken_across_bar(obj['sections']) and known_kind(r):
        print('(an instance of the open known finding %s: broken-rhythm pair across a bar token)' % KNOWN_ACROSS)
    return 1 if r else 0
