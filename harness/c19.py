"""C19 — chord and melody inference return a maximum-likelihood path of their model (DESIGN 6.19)."""
from harness.common import lean_list, lean_str

PID = 'C19'
MODULES = ['NoteSeqVerif.Props.C19']
EXE = 'drv_c19'
THEOREMS = []


def gen_text():
    """Generated/C19.lean: the tables of chord_inference.py that the writer / rotation theorems use."""
    from note_seq import chord_inference as ci, melody_inference as mi, constants
    kinds = list(ci._CHORD_KINDS)
    chords = []
    figures = []
    for ch in ci._CHORDS:
        if ch == constants.NO_CHORD:
            chords.append('none')
            figures.append(constants.NO_CHORD)
        else:
            root, kind = ch
            chords.append('some (%d, %d)' % (root, kinds.index(kind)))
            figures.append('%s%s' % (ci._PITCH_CLASS_NAMES[root], kind))
    cpb = sorted(ci._DEFAULT_TIME_SIGNATURE_CHORDS_PER_BAR.items())
    return ('/-! GENERATED from /repo on every run by harness/c19.py — do not edit. -/\n'
            'namespace NSV.C19.Gen\n'
            'def pitchClassNames : List String := %s\n' % lean_list(lean_str(s) for s in ci._PITCH_CLASS_NAMES)
            + 'def keyPitches : List Nat := %s\n' % lean_list(str(p) for p in ci._KEY_PITCHES)
            + 'def kindNames : List String := %s\n' % lean_list(lean_str(s) for s in kinds)
            + 'def kindPitches : List (List Nat) := %s\n'
            % lean_list(lean_list(str(p) for p in ci._CHORD_KIND_PITCHES[k]) for k in kinds)
            + '/-- `_CHORDS` in order: `none` = NO_CHORD, `some (root, index into kindPitches)` -/\n'
            + 'def chords : List (Option (Nat × Nat)) := %s\n' % lean_list(chords)
            + '/-- the figure string the annotation writer produces for each entry of `_CHORDS` -/\n'
            + 'def figures : List String := %s\n' % lean_list(lean_str(s) for s in figures)
            + 'def numKeyChords : Nat := %d\n' % len(ci._KEY_CHORDS)
            + 'def maxNumChords : Nat := %d\n' % ci._MAX_NUM_CHORDS
            + 'def chordsPerBar : List ((Nat × Nat) × Nat) := %s\n'
            % lean_list('((%d, %d), %d)' % (a, b, c) for ((a, b), c) in cpb)
            + 'def melodyVelocity : Nat := %d\n' % mi.MELODY_VELOCITY
            + 'def maxNumFrames : Nat := %d\n' % mi.MAX_NUM_FRAMES
            + 'def minMidiPitch : Nat := %d\ndef maxMidiPitch : Nat := %d\n'
            % (constants.MIN_MIDI_PITCH, constants.MAX_MIDI_PITCH)
            + 'def unpitchedPrograms : List Nat := %s\n' % lean_list(str(p) for p in sorted(constants.UNPITCHED_PROGRAMS))
            + 'end NSV.C19.Gen\n')


def generate(chk):
    chk.regenerate('NoteSeqVerif/Generated/C19.lean', gen_text())


def run(chk):
    generate(chk)


def replay(chk, obj):
    return 0
