"""C19 — chord and melody inference return a maximum-likelihood path of their model (DESIGN 6.19).

Streams (all inputs derive from VERIF_SEED):
  vit-mel-int      real `_melody_viterbi` on integer-valued tables (ties, -inf) vs the model over `Ext`
                   (exact arithmetic) AND over native Float                         — path + optimum, exact
  vit-mel-big      the same at 127..257 states (P = 63..128 pitches; tables a pure function of a small spec): wide-range
                   tables (arg-max predecessors anywhere), heavy ties, and the sparsity of the real melody HMM with a high
                   pitch held for several frames, so that the best path runs through sustain states of index >= 128
                   (exact Ext, native Float, and rne53 within a budget)
  vit-kc-int       real `_key_chord_viterbi` with `_CHORDS` cut to C = 1..6 chords (12*C states), integer
                   tables, vs the model over native Float (the code adds the non-integer -log 12)
  vit-kc-real      the same at the real dimension 1164 x 1164, transition table regenerated on both
                   sides from a seed (splitmix64)
  vit-kc-float / vit-mel-float   the float tables captured from the end-to-end runs
  chords-e2e       infer_chords_for_sequence on generated sequences: annotations / key signatures vs the
                   model's writer applied to the implementation's path
  chords-history   several infer_chords_for_sequence calls in ONE process whose parameters differ in one coordinate of
                   (key_change_prob, chord_change_prob, chord_pitch_out_of_key_prob, chord_note_concentration) at a time,
                   weak evidence, harness cache off; every call judged on its own against the HMM its parameters define
  melody-e2e       infer_melody_for_sequence: added notes / instrument vs the model's writer; includes sequences with
                   64..128 distinct pitches (129..257 states) and high notes held across several frame boundaries
  note-frames      sequence_note_frames vs the model
  program-table    one melody case per MIDI program 0..127 and one chord case per program at the ends of the range and at
                   every edge of the unpitched ranges (95/96, 103/104, 111/112, 119/120, 126/127): a second instrument with
                   that program plays conspicuous notes above / against the piano part; judged by the oracles, which read
                   "real note" from the General MIDI definition (GM_UNPITCHED below), never from the library's table
  melody-history   several infer_melody_for_sequence calls in ONE process, one parameter changing per call, same / fresh
                   input, every call judged on its own against the HMM its parameters define
  helper-history   every helper that returns an array (chord tables, pitch vectors, note frames, melody tables) is called,
                   its result overwritten in place, and called again with the same arguments: equal to the first result,
                   no memory shared with it; module-level tables must be the same objects with the same contents afterwards
  chord-tables     in-key / out-of-key counts and chord pitch vectors vs the functions the rotation
                   theorem is stated about
Oracle (independent of the model): a plain DP in the same operation order over the implementation's
own tables must EQUAL the score of the implementation's path; brute force over all paths on tiny
instances; the tables handed to the real Viterbi helpers == the HMM that the caller's parameters define (computed
independently), and the returned chord path reaches the optimum of a DP over those independent tables; well-formedness
of what was added; chord likelihood unchanged under transposition.
"""
import itertools
import json
import math
import os
import struct
import sys
import warnings
from concurrent.futures import ThreadPoolExecutor

from harness.common import lean_list, lean_str, rat, unrat, corpus_cases

PID = 'C19'
_PROG = 'NoteSeqVerif.Props.C19_programs'     # the unpitched-program table: its own module, so a changed table breaks only these
MODULES = ['NoteSeqVerif.Props.C19', 'NoteSeqVerif.Props.C19_float', _PROG]
EXE = 'drv_c19'
_T = [
    'NSV.C19.argmax_first_max', 'NSV.C19.viterbi_run_eq', 'NSV.C19.viterbi_exec_eq',
    'NSV.C19.viterbi_optimal', 'NSV.C19.viterbi_error_iff',
    'NSV.C19.keychord_viterbi_optimal', 'NSV.C19.melody_viterbi_optimal',
    'NSV.C19.keychord_score_unfold', 'NSV.C19.melody_score_unfold',
    'NSV.C19.viterbi_finite', 'NSV.C19.viterbi_path_finite', 'NSV.C19.melody_onset_observed',
    'NSV.C19.viterbi_equivariant', 'NSV.C19.keychord_transpose_invariant',
    'NSV.C19.mono_ext', 'NSV.C19.ext_absorbing',
    'NSV.C19.chord_tables_rotation', 'NSV.C19.chord_tables_shape',
    'NSV.C19.chord_annotations_wf', 'NSV.C19.chord_times_nondecreasing', 'NSV.C19.perChord_times_monotone',
    'NSV.C19.melody_notes_wf', 'NSV.C19.melody_writer_ok', 'NSV.C19.melody_instrument_fresh',
    'NSV.C19.noteFrames_onset',
    (_PROG, 'NSV.C19.unpitched_table_gm'), (_PROG, 'NSV.C19.unpitched_iff'), (_PROG, 'NSV.C19.noteFrames_onset_gm'),
    (_PROG, 'NSV.C19.noteFrames_pitched_seen'),
    ('NoteSeqVerif.Props.C19_float', 'NSV.C19.mono_extq'), ('NoteSeqVerif.Props.C19_float', 'NSV.C19.mono_extq_rne53'),
    ('NoteSeqVerif.Props.C19_float', 'NSV.C19.extq_absorbing'),
    ('NoteSeqVerif.Props.C19_float', 'NSV.C19.keychord_viterbi_optimal_float'),
    ('NoteSeqVerif.Props.C19_float', 'NSV.C19.melody_viterbi_optimal_float'),
    ('NoteSeqVerif.Props.C19_float', 'NSV.C19.viterbi_path_finite_float'),
    ('NoteSeqVerif.Props.C19_float', 'NSV.C19.chord_times_nondecreasing_float'),
]
THEOREMS = [t if isinstance(t, tuple) else ('NoteSeqVerif.Props.C19', t) for t in _T]

NINF = float('-inf')
# General MIDI level 1, program numbers 1-based: 97-104 synth effects, 113-120 percussive, 121-128 sound effects are the
# programs that do not sound a definite pitch; 0-based 96..103 and 112..127.  The oracles judge "real (pitched) note" from
# THIS definition, not from constants.UNPITCHED_PROGRAMS.
GM_UNPITCHED = frozenset(range(96, 104)) | frozenset(range(112, 128))
PROGRAM_EDGES = [0, 1, 94, 95, 96, 97, 102, 103, 104, 105, 110, 111, 112, 113, 118, 119, 120, 121, 125, 126, 127]


def gm_pitched(note):
    return (not note.is_drum) and note.program not in GM_UNPITCHED
CHORD_SYMBOL = 1   # NoteSequence.TextAnnotation.CHORD_SYMBOL
BEAT = 2


# ============================================================================= generated tables
def gen_text():
    """Generated/C19.lean: the tables of chord_inference.py that the writer / rotation theorems use."""
    from note_seq import chord_inference as ci, melody_inference as mi, constants
    kinds = list(ci._CHORD_KINDS)
    chords = []
    figures = []
    for ch in ci._CHORDS:
        if ch == constants.NO_CHORD:
            chords.append('none')
            figures.append(constants.NO_CHORD)
        else:
            root, kind = ch
            chords.append('some (%d, %d)' % (root, kinds.index(kind)))
            figures.append('%s%s' % (ci._PITCH_CLASS_NAMES[root], kind))
    cpb = sorted(ci._DEFAULT_TIME_SIGNATURE_CHORDS_PER_BAR.items())
    return ('/-! GENERATED from /repo on every run by harness/c19.py — do not edit. -/\n'
            'namespace NSV.C19.Gen\n'
            'def pitchClassNames : List String := %s\n' % lean_list(lean_str(s) for s in ci._PITCH_CLASS_NAMES)
            + 'def keyPitches : List Nat := %s\n' % lean_list(str(p) for p in ci._KEY_PITCHES)
            + 'def kindNames : List String := %s\n' % lean_list(lean_str(s) for s in kinds)
            + 'def kindPitches : List (List Nat) := %s\n'
            % lean_list(lean_list(str(p) for p in ci._CHORD_KIND_PITCHES[k]) for k in kinds)
            + '/-- `_CHORDS` in order: `none` = NO_CHORD, `some (root, index into kindPitches)` -/\n'
            + 'def chords : List (Option (Nat × Nat)) := %s\n' % lean_list(chords)
            + '/-- the figure string the annotation writer produces for each entry of `_CHORDS` -/\n'
            + 'def figures : List String := %s\n' % lean_list(lean_str(s) for s in figures)
            + 'def numKeyChords : Nat := %d\n' % len(ci._KEY_CHORDS)
            + 'def maxNumChords : Nat := %d\n' % ci._MAX_NUM_CHORDS
            + 'def chordsPerBar : List ((Nat × Nat) × Nat) := %s\n'
            % lean_list('((%d, %d), %d)' % (a, b, c) for ((a, b), c) in cpb)
            + 'def melodyVelocity : Nat := %d\n' % mi.MELODY_VELOCITY
            + 'def maxNumFrames : Nat := %d\n' % mi.MAX_NUM_FRAMES
            + 'def minMidiPitch : Nat := %d\ndef maxMidiPitch : Nat := %d\n'
            % (constants.MIN_MIDI_PITCH, constants.MAX_MIDI_PITCH)
            + 'def unpitchedPrograms : List Nat := %s\n' % lean_list(str(p) for p in sorted(constants.UNPITCHED_PROGRAMS))
            + 'end NSV.C19.Gen\n')


def generate(chk):
    chk.regenerate('NoteSeqVerif/Generated/C19.lean', gen_text())


# ============================================================================= wire helpers
def digest(obj):
    import hashlib
    return hashlib.md5(repr(obj).encode()).hexdigest()


def hexf(x):
    return '%016x' % struct.unpack('<Q', struct.pack('<d', float(x)))[0]


def unhexf(t):
    return struct.unpack('<d', struct.pack('<Q', int(t, 16)))[0]


def hexarr(a):
    import numpy as np
    a = np.ascontiguousarray(a, dtype=np.float64)
    return ' '.join(['%016x' % v for v in a.view(np.uint64).ravel().tolist()])


def ext(x):
    return '-inf' if x == NINF else str(int(x))


def extarr(a):
    return ' '.join(ext(x) for x in a.ravel().tolist())


def hx(s):
    return 'x' + s.encode('utf-8').hex()


def feq(a, b):
    """bit-for-bit equality of two doubles that are not NaN (−0.0 never arises from these sums of
    non-positive log-probabilities and integer tables unless both sides produce it)"""
    return a == b


def splitmix_table(seed, n2, lo, hi, pinf):
    """integer-valued pseudo-random table, identical to `lcgEntry` of Driver/C19.lean"""
    import numpy as np
    k = np.arange(n2, dtype=np.uint64)
    with np.errstate(over='ignore'):
        z = np.uint64(seed) + k * np.uint64(0x9E3779B97F4A7C15)
        z = (z ^ (z >> np.uint64(30))) * np.uint64(0xBF58476D1CE4E5B9)
        z = (z ^ (z >> np.uint64(27))) * np.uint64(0x94D049BB133111EB)
        z = z ^ (z >> np.uint64(31))
    inf = ((z >> np.uint64(40)) % np.uint64(100)) < np.uint64(pinf)
    out = ((z % np.uint64(hi - lo + 1)).astype(np.int64) + lo).astype(np.float64)
    out[inf] = NINF
    return out


def big_mel_tables(np, spec):
    """integer-valued `_melody_viterbi` tables at a LARGE state count (2P+1 >= 127 .. 257), a pure function of `spec`
    (so a replay file carries the spec, not 66 000 numbers).  Styles:
      wide   entries spread over a wide range: ties are rare, the arg-max predecessor of a state is anywhere in
             0..2P, so about half of all back-pointers are >= 128
      ties   entries in -2..0 with many -inf: numpy's first-maximum rule at a large width
      hmm    the sparsity of the real melody HMM (a sustain state is reachable only from the onset / sustain state of
             its own pitch) and a favoured high pitch held over several frames: the best path runs through sustain
             states with the LARGEST indices (P+1+h >= 128), each reached from itself"""
    import random as _random
    P, T, seed, style = spec['P'], spec['frames'], spec['seed'], spec['style']
    n = 2 * P + 1
    r = _random.Random(seed)
    if style == 'wide':
        lo, pinf = -r.choice([1000, 10 ** 6, 10 ** 9]), r.choice([0, 0, 10])
        tr = splitmix_table(seed, n * n, lo, 0, pinf).reshape(n, n)
        fl = splitmix_table(seed + 1, T * n, lo, 0, pinf).reshape(T, n)
    elif style == 'ties':
        pinf = r.choice([0, 30, 60, 90])
        tr = splitmix_table(seed, n * n, -2, 0, pinf).reshape(n, n)
        fl = splitmix_table(seed + 1, T * n, -2, 0, r.choice([0, 30])).reshape(T, n)
    else:
        tr = splitmix_table(seed, n * n, -9, -1, 0).reshape(n, n)
        keep = np.zeros((n, n), dtype=bool)
        keep[:, :P + 1] = True
        j = np.arange(P)
        keep[1 + j, P + 1 + j] = True
        keep[P + 1 + j, P + 1 + j] = True
        tr[~keep] = NINF
        fl = splitmix_table(seed + 1, T * n, -9, -4, 20).reshape(T, n)
        t = 0
        while t + 1 < T:
            h = P - 1 if r.random() < 0.35 else r.randrange(max(0, P - 12), P)   # the top pitch (state 2P) or one near it
            t1 = min(T - 1, t + r.choice([1, 2, 2, 3, 5]))     # onset at t, sustained through t1
            fl[t, 1 + h] = 0.0
            fl[t + 1:t1 + 1, P + 1 + h] = 0.0
            tr[1 + h, P + 1 + h] = 0.0
            tr[P + 1 + h, P + 1 + h] = 0.0
            t = t1 + r.choice([1, 1, 2])
    return fl, tr


# ============================================================================= the implementation
class PatchedChords:
    """run the real `_key_chord_viterbi` with `_CHORDS` cut to its first C entries (the function reads
    the state space from these two module tables); restored on exit"""

    def __init__(self, ci, C):
        self.ci, self.C = ci, C

    def __enter__(self):
        ci = self.ci
        self.orig = (ci._CHORDS, ci._KEY_CHORDS)
        if self.C != len(ci._CHORDS):
            ci._CHORDS = list(ci._CHORDS[:self.C])
            ci._KEY_CHORDS = list(itertools.product(range(12), ci._CHORDS))
        return self

    def __exit__(self, *a):
        self.ci._CHORDS, self.ci._KEY_CHORDS = self.orig


def kc_indices(ci, result, C):
    idx = {c: i for i, c in enumerate(ci._CHORDS)}
    return [int(k) * C + idx[c] for (k, c) in result]


def impl_kc(ci, fl, kc, tr, C):
    with PatchedChords(ci, C):
        return kc_indices(ci, ci._key_chord_viterbi(fl, kc, tr), C)


def mel_indices(mi, events, pitches):
    pos = {p: i for i, p in enumerate(pitches)}
    P = len(pitches)
    out = []
    for e in events:
        if isinstance(e, tuple):
            p, on = e
            out.append(pos[p] + 1 if on else pos[p] + 1 + P)
        else:
            out.append(0)
    return out


def impl_mel(mi, pitches, fl, tr):
    return mel_indices(mi, mi._melody_viterbi(pitches, fl, tr), pitches)


# ---- scores in the code's operation order (IEEE adds on the implementation's own tables)
def kc_init(np, fl, kc, C):
    nl = -np.log(12)
    return [(nl + kc[i // C, i % C]) + fl[0, i % C] for i in range(12 * C)]


def kc_score(np, path, fl, kc, tr, C):
    s = path[0]
    v = (-np.log(12) + kc[s // C, s % C]) + fl[0, s % C]
    for t in range(1, len(path)):
        v = (v + tr[path[t - 1], path[t]]) + fl[t, path[t] % C]
    return float(v)


def mel_score(path, fl, tr):
    v = tr[0, path[0]] + fl[0, path[0]]
    for t in range(1, len(path)):
        v = (v + tr[path[t - 1], path[t]]) + fl[t, path[t]]
    return float(v)


# ============================================================================= the oracle
def dp_optimum(np, init, tr, emit_rows):
    """independent dynamic program: best score of any path, `(best_i (v_i + tr_ij)) + emit_tj`;
    no arg-max, no back-pointers.  Plain Python for small state spaces, numpy element-wise
    add / max (the same IEEE operations) for the 1164-state layout."""
    n = len(init)
    if n <= 80:
        v = [float(x) for x in init]
        trl = [[float(x) for x in row] for row in tr]
        for em in emit_rows:
            eml = [float(x) for x in em]
            nv = []
            for j in range(n):
                best = NINF
                for i in range(n):
                    x = v[i] + trl[i][j]
                    if x > best:
                        best = x
                nv.append(best + eml[j])
            v = nv
        return max(v)
    v = np.array(init, dtype=np.float64)
    for em in emit_rows:
        v = (v[:, None] + tr).max(axis=0) + em
    return float(v.max())


def brute_optimum(n, frames, score_fn):
    best = NINF
    for p in itertools.product(range(n), repeat=frames):
        w = score_fn(list(p))
        if w > best:
            best = w
    return best


def oracle_kc(np, path, fl, kc, tr, C):
    frames = fl.shape[0]
    n = 12 * C
    if len(path) != frames or any(not (0 <= s < n) for s in path):
        return 'returned path is not a state path of the requested length'
    sc = kc_score(np, path, fl, kc, tr, C)
    opt = dp_optimum(np, kc_init(np, fl, kc, C), tr, [np.tile(fl[t], 12) for t in range(1, frames)])
    if not feq(sc, opt):
        return 'key-chord path scores %r but the dynamic program reaches %r' % (sc, opt)
    if n ** frames <= 2000:
        b = brute_optimum(n, frames, lambda p: kc_score(np, p, fl, kc, tr, C))
        if not feq(sc, b):
            return 'key-chord path scores %r but some path scores %r (brute force)' % (sc, b)
    return None


def oracle_mel(np, path, fl, tr):
    frames, n = fl.shape
    if len(path) != frames or any(not (0 <= s < n) for s in path):
        return 'returned path is not a state path of the requested length'
    sc = mel_score(path, fl, tr)
    init = [tr[0, j] + fl[0, j] for j in range(n)]
    opt = dp_optimum(np, init, tr, [fl[t] for t in range(1, frames)])
    if not feq(sc, opt):
        return 'melody path scores %r but the dynamic program reaches %r' % (sc, opt)
    if n ** frames <= 7000:
        b = brute_optimum(n, frames, lambda p: mel_score(p, fl, tr))
        if not feq(sc, b):
            return 'melody path scores %r but some path scores %r (brute force)' % (sc, b)
    return None


# ============================================================================= sequences
def build_seq(d):
    from note_seq.protobuf import music_pb2
    s = music_pb2.NoteSequence()
    for (p, a, b, inst, prog, drum) in d['notes']:
        n = s.notes.add()
        n.pitch, n.start_time, n.end_time, n.instrument, n.program, n.is_drum = p, a, b, inst, prog, bool(drum)
        n.velocity = 80
    s.total_time = d['total_time']
    if d.get('qpm') is not None:
        t = s.tempos.add()
        t.qpm = d['qpm']
    if d.get('ts') is not None:
        t = s.time_signatures.add()
        t.numerator, t.denominator = d['ts']
    for (t, txt, ty) in d.get('annotations', []):
        a = s.text_annotations.add()
        a.time, a.text, a.annotation_type = t, txt, ty
    for (t, k) in d.get('key_signatures', []):
        ks = s.key_signatures.add()
        ks.time, ks.key = t, k
    return s


def prepare_chord_seq(d):
    """the sequence handed to infer_chords_for_sequence"""
    from note_seq import sequences_lib as sl
    s = build_seq(d)
    if d.get('spq'):
        s = sl.quantize_note_sequence(s, d['spq'])
    elif d.get('abs_sps'):
        s = sl.quantize_note_sequence_absolute(s, d['abs_sps'])
    return s


PARAM_SETS = [
    {},
    {'key_change_prob': 0.01, 'chord_change_prob': 0.3, 'chord_pitch_out_of_key_prob': 0.05, 'chord_note_concentration': 20.0},
    {'key_change_prob': 0.2, 'chord_change_prob': 0.9, 'chord_pitch_out_of_key_prob': 0.3, 'chord_note_concentration': 3.0},
    {'key_change_prob': 0.0, 'chord_change_prob': 0.5, 'chord_pitch_out_of_key_prob': 0.01, 'chord_note_concentration': 100.0},
    {'key_change_prob': 0.001, 'chord_change_prob': 1.0, 'chord_pitch_out_of_key_prob': 0.0, 'chord_note_concentration': 0.0},
    {'key_change_prob': 0.5, 'chord_change_prob': 0.1, 'chord_pitch_out_of_key_prob': 0.5, 'chord_note_concentration': 250.0},
    # the far ends of the documented ranges: the key all but forced to change under a held chord (then the same chord
    # symbol must NOT be written again: "consecutive chord symbols differ"), the chord all but forced to change / to stay
    {'key_change_prob': 0.99, 'chord_change_prob': 0.01, 'chord_pitch_out_of_key_prob': 0.01, 'chord_note_concentration': 100.0},
    {'key_change_prob': 0.99, 'chord_change_prob': 0.5, 'chord_pitch_out_of_key_prob': 0.2, 'chord_note_concentration': 20.0},
    {'key_change_prob': 0.1, 'chord_change_prob': 0.99, 'chord_pitch_out_of_key_prob': 0.01, 'chord_note_concentration': 100.0},
    {'key_change_prob': 0.999, 'chord_change_prob': 0.001, 'chord_pitch_out_of_key_prob': 0.05, 'chord_note_concentration': 50.0},
]
N_BASE_PARAM_SETS = len(PARAM_SETS)
# The history family: the cube {key_change_prob} x {chord_change_prob} x {chord_pitch_out_of_key_prob} around the
# defaults (0.001, 0.5, 0.01), each corner with strong / weak / very weak evidence.  Any two corners that differ in
# ONE coordinate share the other two, so a call sequence walking the cube holds every pair of parameters fixed while
# the third varies (and holds all three fixed while only the concentration varies).
HIST_KCP, HIST_CCP, HIST_POUT, HIST_CONC = [0.001, 0.05], [0.5, 0.9], [0.01, 0.4], [100.0, 5.0, 1.0]
HIST_INDEX = {}
for _a in HIST_KCP:
    for _b in HIST_CCP:
        for _c in HIST_POUT:
            for _d in HIST_CONC:
                HIST_INDEX[(_a, _b, _c, _d)] = len(PARAM_SETS)
                PARAM_SETS.append({'key_change_prob': _a, 'chord_change_prob': _b, 'chord_pitch_out_of_key_prob': _c,
                                   'chord_note_concentration': _d})
def case_params(d):
    """keyword parameters of a chord case: parameter set `params`, with `param_values` (off-grid values) on top"""
    kw = dict(PARAM_SETS[d['params']])
    kw.update(d.get('param_values') or {})
    return kw


SUPPORTED = [(2, 2), (2, 4), (3, 4), (4, 4), (6, 8)]
KINDS = [[0, 4, 7], [0, 3, 7], [0, 4, 8], [0, 3, 6], [0, 4, 7, 10], [0, 4, 7, 11], [0, 3, 7, 10], [0, 3, 6, 10]]


def gen_chord_case(rng, nparams, family=False):
    d = {'kind': 'chords', 'notes': [], 'annotations': [], 'key_signatures': []}
    hist = []
    mode = rng.choice(['meter', 'meter', 'meter', 'beats', 'beats-abs'])
    d['qpm'] = rng.choice([120.0, 120.0, 60.0, 90.0, 100.0, 137.5, rng.uniform(40, 200)])
    F = rng.choice([1, 1, 2, 2, 3, 4, 5, 8, 13, 16, 32, 64, rng.randint(1, 64), rng.randint(1, 24)])
    if mode == 'meter':
        ts = rng.choice(SUPPORTED + [(4, 4), (3, 4), (5, 4), (7, 8), (12, 8)])
        spq = rng.choice([1, 2, 4, 4, 4, 8, 12, 24])
        steps_per_bar = spq * 4 * ts[0] // ts[1] if (spq * 4 * ts[0]) % ts[1] == 0 else None
        if steps_per_bar is None:
            ts, steps_per_bar = (4, 4), spq * 4
        divs = [c for c in range(1, steps_per_bar + 1) if steps_per_bar % c == 0]
        from note_seq import chord_inference as ci
        default = ci._DEFAULT_TIME_SIGNATURE_CHORDS_PER_BAR.get(ts)
        if default is not None and steps_per_bar % default == 0 and rng.random() < 0.7:
            cpb, eff = None, default
        else:
            cpb = eff = rng.choice(divs[:4])
        d.update(ts=list(ts), spq=spq, chords_per_bar=cpb)
        steps_per_chord = steps_per_bar // eff
        spc = steps_per_chord / (spq * d['qpm'] / 60.0)
        bounds = [f * spc for f in range(F + 1)]
        k = rng.random()
        d['total_time'] = (bounds[F] if k < 0.5 else bounds[F] - rng.uniform(0, 0.9) * spc if k < 0.9 or F == 1
                           else math.nextafter(bounds[F - 1], math.inf))   # just past the previous boundary
        hist += ['meter:%d/%d' % tuple(ts), 'cpb:' + ('default' if cpb is None else 'explicit')]
    else:
        d.update(ts=[4, 4], chords_per_bar=None)
        if mode == 'beats-abs':
            d['abs_sps'] = rng.choice([10, 50, 100])
        t, bounds = 0.0, [0.0]
        base = 60.0 / d['qpm']
        for _ in range(F):
            t += base * rng.choice([1.0, 1.0, 1.0, rng.uniform(0.7, 1.4)])
            bounds.append(t)
        d['total_time'] = bounds[F]
        beats = list(bounds[1:F])
        extra = []
        for b in beats:
            if rng.random() < 0.1:
                extra.append(b)                 # duplicate beat
        if rng.random() < 0.5:
            extra += [0.0, d['total_time']]     # not interior: ignored
        if rng.random() < 0.2:
            extra.append(d['total_time'] + 1.0)
        beats += extra
        if not beats:
            beats.append(rng.choice([0.0, d['total_time']]))   # a beat annotation must exist; none is interior
        rng.shuffle(beats)
        d['annotations'] += [[b, '', BEAT] for b in beats]
        if rng.random() < 0.3:
            d['annotations'].append([rng.choice(bounds), 'lyric', 0])
        hist += ['mode:' + mode]
    # notes: a progression with persistence, chord tones + occasional strangers
    key = rng.randrange(12)
    scale = [(key + o) % 12 for o in [0, 2, 4, 5, 7, 9, 11]]
    cur = None
    for f in range(F):
        a, b = bounds[f], min(bounds[f + 1], d['total_time'])
        if b <= a:
            continue
        if cur is None or rng.random() < 0.45:
            cur = (rng.choice(scale), rng.choice(KINDS))
        if rng.random() < 0.03:
            key = rng.randrange(12)
            scale = [(key + o) % 12 for o in [0, 2, 4, 5, 7, 9, 11]]
        style = rng.random()
        nn = 0 if style < 0.12 else rng.choice([1, 2, 3, 3, 4, 5])
        for _ in range(nn):
            pc = (cur[0] + rng.choice(cur[1])) % 12 if rng.random() < 0.85 else rng.randrange(12)
            pitch = 12 * rng.choice([3, 4, 4, 5, 6]) + pc
            k = rng.random()
            st = a if k < 0.6 else a + rng.random() * (b - a)
            k = rng.random()
            if k < 0.5:
                en = b
            elif k < 0.75:
                en = st + rng.random() * (b - st)
            elif k < 0.93:
                en = min(bounds[min(f + rng.choice([2, 3]), F)], d['total_time'])   # crosses frame boundaries
            else:
                en = st                                                             # zero length
            if en < st:
                en = st
            drum = rng.random() < 0.04
            prog = rng.choice([0, 0, 0, 24, 40, 118 if rng.random() < 0.3 else 0])
            if rng.random() < 0.1:
                prog = rng.choice(PROGRAM_EDGES)
            d['notes'].append([pitch, st, en, rng.randrange(3), prog, drum])
    if not d['notes'] or rng.random() < 0.05:
        d['notes'].append([60 + key, 0.0, d['total_time'], 0, 0, False])
    if rng.random() < 0.3:
        rng.shuffle(d['notes'])
    if rng.random() < 0.3:
        d['key_signatures'].append([0.0, rng.randrange(12)])
    d['add_key_signatures'] = rng.random() < 0.5
    d['params'] = (rng.randrange(nparams) if not family or rng.random() < 0.6
                   else rng.randrange(N_BASE_PARAM_SETS, len(PARAM_SETS)))
    hist += ['frames:%s' % ('1' if F == 1 else '2-8' if F <= 8 else '9-32' if F <= 32 else '33-64'),
             'params:%d' % d['params'], 'keys:%s' % d['add_key_signatures']]
    return d, hist


def gen_melody_big(rng):
    """many distinct pitches (64..128 -> 129..257 melody states) on a time grid with few distinct event times, and
    HIGH notes held across several frame boundaries while shorter lower notes come and go underneath: the maximum-
    likelihood melody stays on the sustain state of a top pitch (state index P+1+j >= 128) for several frames"""
    d = {'kind': 'melody', 'notes': []}
    P = rng.choice([64, 65, 70, 80, 90, 100, 128, 128, rng.randint(64, 128), rng.randint(64, 100)])
    pitches = sorted(rng.sample(range(128), P))
    step = rng.choice([0.125, 0.25, 0.1])
    per_slot = rng.choice([1, 2, 3, 4]) if P <= 90 else rng.choice([2, 3, 4, 6])
    order = list(pitches)
    k = rng.random()
    if k < 0.3:
        order.reverse()
    elif k < 0.6:
        rng.shuffle(order)
    slot = 0
    sections = ['run', 'held'] if rng.random() < 0.7 else ['held', 'run']
    n_held = rng.choice([1, 2, 3, 4])
    top = pitches[-min(P, 10):]
    low = pitches[:P // 2]
    for sec in sections:
        if sec == 'run':
            for i in range(0, P, per_slot):
                for p in order[i:i + per_slot]:
                    ln = rng.choice([1, 1, 1, 2])
                    d['notes'].append([p, slot * step, (slot + ln) * step, rng.choice([0, 0, 1]), 0, False])
                slot += 1
            slot += 1
        else:
            for _ in range(n_held):
                L = rng.choice([3, 4, 5, 8])
                hp = top[-1] if rng.random() < 0.4 else rng.choice(top)      # the very top pitch: sustain state 2P
                d['notes'].append([hp, slot * step, (slot + L) * step, 0, 0, False])
                for q in range(1, L):
                    if rng.random() < 0.85:
                        lp = rng.choice(low)
                        off = rng.choice([0.0, 0.0, 0.5])
                        d['notes'].append([lp, (slot + q + off) * step, (slot + q + off + rng.choice([0.5, 1.0])) * step,
                                           rng.choice([0, 1, 2]), rng.choice(PROGRAM_EDGES) if rng.random() < 0.05 else 0, False])
                slot += L + rng.choice([0, 0, 1])
    if rng.random() < 0.2:
        d['notes'].append([rng.choice(pitches), 0.0, step, 3, 0, True])       # a drum note: no state of its own
    if rng.random() < 0.3:
        rng.shuffle(d['notes'])
    mx = max(n[2] for n in d['notes'])
    d['total_time'] = mx if rng.random() < 0.6 else mx + rng.choice([0.5, 0.001])
    k = rng.random()
    if k < 0.5:
        d['params'] = {}
    else:
        d['params'] = {'melody_interval_scale': rng.choice([0.5, 2.0, 7.0]), 'rest_prob': rng.choice([0.01, 0.1, 0.2, 0.5]),
                       'instantaneous_non_max_pitch_prob': rng.choice([1e-15, 1e-3, 0.3]),
                       'instantaneous_non_empty_rest_prob': rng.choice([0.0, 1e-3, 0.2]),
                       'instantaneous_missing_pitch_prob': rng.choice([1e-15, 1e-3, 0.4])}
    hist = ['big', 'pitches:%s' % ('64-99' if P < 100 else '100-127' if P < 128 else '128'),
            'params:%s' % ('default' if not d['params'] else 'custom')]
    return d, hist


def gen_weak_chord_input(rng):
    """a short quantized 4/4 sequence (one chord frame per second) with weak / ambiguous evidence: one to three tones
    per frame, in-key and out-of-key roots mixed, so that the prior and the transition model decide the path"""
    d = {'kind': 'chords', 'notes': [], 'annotations': [], 'key_signatures': [], 'qpm': 120.0, 'ts': [4, 4], 'spq': 4,
         'chords_per_bar': 2}
    F = rng.choice([2, 3, 4, 6, 6, 8])
    key = rng.randrange(12)
    scale = [(key + o) % 12 for o in [0, 2, 4, 5, 7, 9, 11]]
    for f in range(F):
        root = rng.choice(scale) if rng.random() < 0.6 else rng.randrange(12)
        kind = rng.choice(KINDS[:2] + KINDS[4:7])
        tones = rng.sample(kind, rng.choice([1, 2, 2, 3, 3]))
        if rng.random() < 0.08:
            continue        # an empty frame
        for o in tones:
            d['notes'].append([12 * rng.choice([4, 5]) + (root + o) % 12, float(f), float(f + 1), 0, 0, False])
    if not d['notes']:
        d['notes'].append([60 + key, 0.0, float(F), 0, 0, False])
    d['total_time'] = float(F)
    return d


def gen_history(rng, full, style):
    """consecutive calls in one process.  The three table parameters move on the cube HIST_KCP x HIST_CCP x HIST_POUT
    one coordinate at a time.  `star`: centre, neighbour, centre, neighbour, …: each neighbour differs from the centre in
    exactly ONE table parameter (the other two are shared) and is adjacent to it in time; a last, NEAR neighbour moves
    one table parameter by 5-30 % only; the concentration changes freely between calls.  `walk`: every step changes
    exactly one of the four parameters (to the other grid value or to a nearby off-grid value) or none."""
    flip = lambda vals, v: vals[(vals.index(v) + 1) % len(vals)]
    seq = []
    if style == 'star':
        c = (0.001, 0.5, 0.01) if (not full or rng.random() < 0.5) else (rng.choice(HIST_KCP), rng.choice(HIST_CCP), rng.choice(HIST_POUT))
        nb = [(flip(HIST_KCP, c[0]), c[1], c[2]), (c[0], flip(HIST_CCP, c[1]), c[2]), (c[0], c[1], flip(HIST_POUT, c[2]))]
        rng.shuffle(nb)
        concs = list(HIST_CONC)
        rng.shuffle(concs)
        for i, x in enumerate(nb):
            seq.append(c + (concs[i % len(concs)],))
            seq.append(x + (rng.choice(HIST_CONC[1:]),))
        # one NEAR neighbour: the same corner with one table parameter moved a little (coarsened memo keys)
        k = rng.randrange(3)
        near = list(c)
        near[k] = min(0.95, near[k] * (1 + rng.choice([-1, 1]) * rng.uniform(0.05, 0.3)))
        seq.append(c + (rng.choice(HIST_CONC),))
        seq.append(tuple(near) + (rng.choice(HIST_CONC[1:]),))
        if rng.random() < 0.5:
            seq = seq[1:] + seq[:1]     # start at a neighbour
    else:
        cur = [rng.choice(HIST_KCP), rng.choice(HIST_CCP), rng.choice(HIST_POUT), rng.choice(HIST_CONC)]
        vals = [HIST_KCP, HIST_CCP, HIST_POUT, HIST_CONC]
        for i in range(rng.choice([6, 8, 10]) if full else 6):
            seq.append(tuple(cur))
            k = rng.choice([0, 1, 2, 2, 3, 3, None])
            if k is not None and k < 3 and rng.random() < 0.4:
                # off the grid: a nearby value of the same parameter (a memo keyed on a coarsened value goes stale)
                cur[k] = min(0.95, cur[k] * (1 + rng.choice([-1, 1]) * rng.uniform(0.05, 0.3)))
            elif k is not None:
                cur[k] = rng.choice([v for v in vals[k] if v != cur[k]])
    same_input = rng.random() < 0.5
    base = gen_weak_chord_input(rng)
    addk = rng.random() < 0.7
    calls = []
    for i, pv in enumerate(seq):
        d = dict(base if same_input else gen_weak_chord_input(rng))
        d['add_key_signatures'] = addk if same_input else rng.random() < 0.7
        grid = (min(HIST_KCP, key=lambda v: abs(v - pv[0])), min(HIST_CCP, key=lambda v: abs(v - pv[1])),
                min(HIST_POUT, key=lambda v: abs(v - pv[2])), pv[3])
        d['params'] = HIST_INDEX[grid]
        if grid != pv:
            d['param_values'] = {'key_change_prob': pv[0], 'chord_change_prob': pv[1], 'chord_pitch_out_of_key_prob': pv[2]}
        changed = 'first' if i == 0 else '+'.join(n for n, a, b in zip(['key_change', 'chord_change', 'out_of_key', 'concentration'], seq[i - 1], pv) if a != b) or 'none'
        calls.append((d, ['style:' + style, 'varies:' + changed, 'input:' + ('same' if same_input else 'fresh'),
                          'concentration:%g' % pv[3], 'grid:' + ('on' if grid == pv else 'off')]))
    return calls


def gen_melody_case(rng):
    d = {'kind': 'melody', 'notes': []}
    hist = []
    pool = sorted({0.0} | {rng.randrange(1, 64) / 8.0 for _ in range(rng.choice([2, 4, 8, 16]))}
                  | {round(rng.uniform(0, 8), 3) for _ in range(rng.choice([0, 2, 5]))})
    nn = rng.choice([0, 1, 2, 3, 5, 8, 12, 20, 40, 70, 100])
    pitches = [rng.randrange(36, 96) for _ in range(rng.choice([1, 2, 3, 5, 8, 16]))]
    for _ in range(nn):
        a, b = rng.choice(pool), rng.choice(pool)
        if a > b:
            a, b = b, a
        if a == b:
            if rng.random() < 0.9:
                b = a + rng.choice([0.125, 0.25, 0.5, 1.0])
            else:
                hist.append('zero-length-note')
        p = rng.choice(pitches)
        drum = rng.random() < 0.05
        prog = rng.choice([0, 0, 0, 40, 120 if rng.random() < 0.2 else 0])
        if rng.random() < 0.1:
            prog = rng.choice(PROGRAM_EDGES)
        d['notes'].append([p, a, b, rng.choice([0, 0, 1, 2, 8, 8]), prog, drum])
    if d['notes'] and rng.random() < 0.15:
        # long frames (notes held for tens of seconds up to minutes): the per-frame emission is probability ** duration, so
        # with the default 1e-15 per second a 25 s frame has likelihood 1e-375 - representable only in the log domain
        # (seed C19-17 computed log(p ** d): underflow turns 'very unlikely' into 'impossible')
        k = rng.choice([4.0, 8.0, 32.0])
        for n in d['notes']:
            n[1], n[2] = n[1] * k, n[2] * k
        hist.append('long-frames')
    ends = [n[2] for n in d['notes']]
    mx = max(ends + [0.0])
    # a zero-length note sitting exactly on total_time is excluded (reported separately: F-C19-1 candidate)
    d['total_time'] = mx if rng.random() < 0.6 else mx + rng.choice([0.5, 1.0, 0.001])
    d['notes'] = [n for n in d['notes'] if not (n[1] == n[2] == d['total_time'])]
    k = rng.random()
    if k < 0.5:
        d['params'] = {}
    elif k < 0.8:
        d['params'] = {'melody_interval_scale': rng.choice([0.5, 2.0, 7.0]), 'rest_prob': rng.choice([0.01, 0.1, 0.5, 0.9]),
                       'instantaneous_non_max_pitch_prob': rng.choice([1e-15, 1e-3, 0.3]),
                       'instantaneous_non_empty_rest_prob': rng.choice([0.0, 1e-6, 0.2]),
                       'instantaneous_missing_pitch_prob': rng.choice([1e-15, 1e-4, 0.4])}
    else:
        d['params'] = {'rest_prob': rng.choice([0.1, 0.999]), 'instantaneous_non_max_pitch_prob': rng.choice([0.0, 0.5]),
                       'instantaneous_non_empty_rest_prob': rng.choice([0.0, 0.5]),
                       'instantaneous_missing_pitch_prob': rng.choice([0.0, 0.5])}
    hist += ['notes:%s' % ('0' if nn == 0 else '1-5' if nn <= 5 else '6-20' if nn <= 20 else '21-100'),
             'params:%s' % ('default' if not d['params'] else 'custom')]
    return d, hist


def gen_program_melody(p, rng):
    """a piano line plus a second instrument with program `p` playing HIGHER notes over it (non-drum): whether those
    notes are melody candidates depends only on whether program p is pitched"""
    d = {'kind': 'melody', 'notes': [], 'params': {}}
    t = 0.0
    for i in range(rng.choice([3, 4, 5])):
        ln = rng.choice([0.5, 1.0])
        d['notes'].append([rng.choice([55, 57, 60, 62, 64]), t, t + ln, 0, 0, False])
        if rng.random() < 0.8:
            a = t + rng.choice([0.0, 0.25])
            d['notes'].append([rng.choice([79, 83, 86, 90]), a, a + rng.choice([0.25, 0.5, ln]), 1, p, False])
        t += ln
    d['notes'].append([92, 0.0, min(0.5, t), 2, p, False])
    d['total_time'] = max(n[2] for n in d['notes'])
    return d, ['program %s' % ('pitched (GM)' if p not in GM_UNPITCHED else 'unpitched (GM)'),
               'edge program' if p in PROGRAM_EDGES else 'inner program']


def gen_program_chords(p, rng):
    """two or three chord frames of piano triads plus an instrument with program `p` holding a loud foreign cluster"""
    F = rng.choice([2, 3])
    d = {'kind': 'chords', 'notes': [], 'annotations': [], 'key_signatures': [], 'qpm': 120.0, 'ts': [4, 4], 'spq': 4,
         'chords_per_bar': 2, 'add_key_signatures': rng.random() < 0.5, 'params': 0, 'total_time': float(F)}
    root = rng.randrange(12)
    for f in range(F):
        r = (root + rng.choice([0, 5, 7])) % 12
        for o in (0, 4, 7):
            d['notes'].append([48 + (r + o) % 12, float(f), float(f + 1), 0, 0, False])
    for o in rng.sample([1, 6, 8, 10], 3):
        d['notes'].append([72 + (root + o) % 12, 0.0, float(F), 1, p, False])
    return d, ['program %s' % ('pitched (GM)' if p not in GM_UNPITCHED else 'unpitched (GM)'),
               'edge program' if p in PROGRAM_EDGES else 'inner program']


MEL_HIST = {'melody_interval_scale': [2.0, 0.5, 7.0], 'rest_prob': [0.1, 0.01, 0.5],
            'instantaneous_non_max_pitch_prob': [1e-15, 1e-3, 0.3], 'instantaneous_non_empty_rest_prob': [0.0, 1e-3, 0.2],
            'instantaneous_missing_pitch_prob': [1e-15, 1e-3, 0.4]}


def gen_melody_history(rng):
    """consecutive infer_melody_for_sequence calls in one process: one parameter changes per call (or none: the same
    call again), on the same input or a fresh one"""
    cur = {k: v[0] for k, v in MEL_HIST.items()} if rng.random() < 0.5 else {k: rng.choice(v) for k, v in MEL_HIST.items()}
    same_input = rng.random() < 0.5
    base, _ = gen_melody_case(rng)
    calls = []
    prev = None
    for i in range(rng.choice([4, 5, 6])):
        d = dict(base) if same_input else gen_melody_case(rng)[0]
        d['params'] = dict(cur)
        changed = 'first' if prev is None else '+'.join(k for k in cur if cur[k] != prev[k]) or 'none'
        calls.append((d, ['varies:' + changed, 'input:' + ('same' if same_input else 'fresh')]))
        prev = dict(cur)
        k = rng.choice(list(MEL_HIST) + [None])
        if k is not None:
            if rng.random() < 0.3 and cur[k] > 0:
                cur[k] = cur[k] * (1 + rng.choice([-1, 1]) * rng.uniform(0.05, 0.3))      # a nearby off-grid value
            else:
                cur[k] = rng.choice([v for v in MEL_HIST[k] if v != cur[k]] or MEL_HIST[k])
    return calls


# ---- module-level state that the two modules (and constants) carry: must be the same objects with the same contents
# after any number of calls
def module_state():
    from note_seq import chord_inference as ci, melody_inference as mi, constants
    objs = {'chord_inference._PITCH_CLASS_NAMES': ci._PITCH_CLASS_NAMES, 'chord_inference._KEY_PITCHES': ci._KEY_PITCHES,
            'chord_inference._CHORD_KIND_PITCHES': ci._CHORD_KIND_PITCHES, 'chord_inference._CHORDS': ci._CHORDS,
            'chord_inference._KEY_CHORDS': ci._KEY_CHORDS, 'chord_inference._MAX_NUM_CHORDS': ci._MAX_NUM_CHORDS,
            'chord_inference._DEFAULT_TIME_SIGNATURE_CHORDS_PER_BAR': ci._DEFAULT_TIME_SIGNATURE_CHORDS_PER_BAR,
            'melody_inference.MAX_NUM_FRAMES': mi.MAX_NUM_FRAMES, 'melody_inference.MELODY_VELOCITY': mi.MELODY_VELOCITY,
            'melody_inference.REST': mi.REST, 'constants.UNPITCHED_PROGRAMS': constants.UNPITCHED_PROGRAMS,
            'constants.NO_CHORD': constants.NO_CHORD}
    return {k: (id(v), repr(list(v.items()) if isinstance(v, dict) else v)) for k, v in objs.items()}


def module_state_diff(before):
    now = module_state()
    return sorted(k for k in before if before[k] != now.get(k))


HELPERS = ['_key_chord_distribution', '_chord_pitch_vectors', 'sequence_note_pitch_vectors', '_chord_frame_log_likelihood',
           'sequence_note_frames', '_melody_transition_distribution', '_melody_frame_log_likelihood',
           '_key_chord_transition_distribution']


def helper_call(np, name, d, arg):
    """one call of a helper of the two modules on a generated sequence / parameter; returns a tuple of arrays / lists"""
    from note_seq import chord_inference as ci, melody_inference as mi
    with np.errstate(divide='ignore', invalid='ignore'), warnings.catch_warnings():
        warnings.simplefilter('ignore')
        if name == '_key_chord_distribution':
            return (ci._key_chord_distribution(chord_pitch_out_of_key_prob=arg),)
        if name == '_key_chord_transition_distribution':
            dist = ci._key_chord_distribution(chord_pitch_out_of_key_prob=0.01)
            return (ci._key_chord_transition_distribution(dist, key_change_prob=arg, chord_change_prob=0.5),)
        if name == '_chord_pitch_vectors':
            return (ci._chord_pitch_vectors(),)
        if name == 'sequence_note_pitch_vectors':
            return (ci.sequence_note_pitch_vectors(build_seq(d), arg),)
        if name == '_chord_frame_log_likelihood':
            return (ci._chord_frame_log_likelihood(ci.sequence_note_pitch_vectors(build_seq(d), arg), 100.0),)
        if name == 'sequence_note_frames':
            return tuple(mi.sequence_note_frames(build_seq(d)))
        if name == '_melody_transition_distribution':
            pitches = sorted(set(n[0] for n in d['notes']))
            return (mi._melody_transition_distribution(arg, lambda iv: 1.0 / (1.0 + (iv / 2.0) ** 2)),)
        pitches, on, nt, ev = mi.sequence_note_frames(build_seq(d))
        s = build_seq(d)
        durs = np.array([b - a for a, b in zip([0.0] + list(ev), list(ev) + [s.total_time])])
        return (mi._melody_frame_log_likelihood(pitches, on, nt, durs, 1e-15, arg, 1e-15),)


def helper_history(np, name, d, arg):
    """call, keep a copy, overwrite everything returned in place, call again with the same arguments; returns failure
    text or None"""
    first = helper_call(np, name, d, arg)
    saved = [a.copy() if isinstance(a, np.ndarray) else list(a) for a in first]
    for a in first:
        if isinstance(a, np.ndarray):
            if a.flags.writeable and a.size:
                a[...] = (~a) if a.dtype == bool else 12345.0
        elif isinstance(a, list):
            a.append(-777)
            a.reverse()
    second = helper_call(np, name, d, arg)
    for i, (a, b, c) in enumerate(zip(saved, second, first)):
        if isinstance(b, np.ndarray):
            if b.shape != a.shape or not np.array_equal(a, b, equal_nan=True):
                return ('%s: called twice with the same arguments, the first result overwritten in place in between: the second '
                        'result differs from the first (component %d)' % (name, i))
            if np.shares_memory(b, c):
                return '%s: the second result shares memory with the first (component %d)' % (name, i)
        elif list(b) != list(a):
            return ('%s: called twice with the same arguments, the first result modified in place in between: the second '
                    'result differs from the first (component %d)' % (name, i))
    return None


# ============================================================================= capture
VERIFY_HITS = (1, 10, 100, 1000)


class Capture:
    """record what the real Viterbi helpers are called with and return.  Nothing is replaced: the real functions
    run.  The one exception is speed: `_key_chord_transition_distribution` is a 0.65 s Python loop, so when a `cache`
    dict is given its result is remembered per (distribution bytes, key_change_prob, chord_change_prob) — ALL of its
    arguments.  So that this cannot mask hidden state in the code, (1) the cache only ever stands in for a call the
    code really made with exactly those arguments, (2) at the 1st, 10th, 100th, … hit of an entry the real function
    is run again and must return the identical table (`impure` otherwise: reported by the oracle), (3) what the oracle
    judges is the table actually handed to `_key_chord_viterbi`, compared with a table computed independently from
    the parameters of THIS call (`oracle_chord_tables`), and (4) the history stream runs with `cache=None`, i.e. with
    the unpatched function."""

    def __init__(self, cache):
        self.cache = cache
        self.kc = []      # (fl, kc, tr, result)
        self.mel = []     # (pitches, fl, tr, result)
        self.frames_arg = []
        self.impure = []

    def __enter__(self):
        import numpy as np
        from note_seq import chord_inference as ci, melody_inference as mi
        self.ci, self.mi = ci, mi
        self.orig = (ci._key_chord_viterbi, ci._key_chord_transition_distribution, ci.sequence_note_pitch_vectors,
                     mi._melody_viterbi)
        o_kv, o_td, o_pv, o_mv = self.orig

        def kv(fl, kc, tr):
            r = o_kv(fl, kc, tr)
            self.kc.append((fl, kc, tr, r))
            return r

        def td(dist, key_change_prob, chord_change_prob):
            k = (dist.tobytes(), dist.shape, key_change_prob, chord_change_prob)
            ent = self.cache.get(k)
            if ent is None:
                m = o_td(dist, key_change_prob=key_change_prob, chord_change_prob=chord_change_prob)
                self.cache[k] = [m.copy(), 0]
                return m
            ent[1] += 1
            if ent[1] in VERIFY_HITS:
                m = o_td(dist, key_change_prob=key_change_prob, chord_change_prob=chord_change_prob)
                if m.shape != ent[0].shape or not np.array_equal(m, ent[0], equal_nan=True):
                    self.impure.append((key_change_prob, chord_change_prob))
                return m
            return ent[0].copy()

        def pv(sequence, seconds_per_frame):
            self.frames_arg.append(seconds_per_frame)
            return o_pv(sequence, seconds_per_frame)

        def mv(pitches, fl, tr):
            r = o_mv(pitches, fl, tr)
            self.mel.append((list(pitches), fl, tr, r))
            return r

        ci._key_chord_viterbi, ci.sequence_note_pitch_vectors = kv, pv
        if self.cache is not None:
            ci._key_chord_transition_distribution = td
        mi._melody_viterbi = mv
        return self

    def __exit__(self, *a):
        ci, mi = self.ci, self.mi
        (ci._key_chord_viterbi, ci._key_chord_transition_distribution, ci.sequence_note_pitch_vectors,
         mi._melody_viterbi) = self.orig


def run_chords(d, cache):
    """infer_chords_for_sequence on the case; returns dict(seq=, err=, cap=)"""
    from note_seq import chord_inference as ci
    s = prepare_chord_seq(d)
    kw = case_params(d)
    with Capture(cache) as cap, warnings.catch_warnings():
        warnings.simplefilter('ignore')
        try:
            ci.infer_chords_for_sequence(s, chords_per_bar=d.get('chords_per_bar'),
                                         add_key_signatures=d['add_key_signatures'], **kw)
            err = None
        except Exception as e:  # pylint: disable=broad-except
            err = e
    return {'seq': s, 'err': err, 'cap': cap}


def figure_table(ci):
    from note_seq import constants
    return [constants.NO_CHORD if c == constants.NO_CHORD else '%s%s' % (ci._PITCH_CLASS_NAMES[c[0]], c[1])
            for c in ci._CHORDS]


def chord_timing(d, s, cap):
    """frame start times / steps as the property reads them: per-chord grid or the interior beats"""
    from note_seq import sequences_lib as sl
    arg = cap.frames_arg[-1]
    if d.get('spq'):
        spb = sl.steps_per_bar_in_quantized_sequence(s)
        from note_seq import chord_inference as ci
        cpb = d.get('chords_per_bar') or ci._DEFAULT_TIME_SIGNATURE_CHORDS_PER_BAR[tuple(d['ts'])]
        return ('pc', float(arg), int(spb / cpb))
    beats = sorted([a for a in s.text_annotations if a.annotation_type == BEAT and 0.0 < a.time < s.total_time],
                   key=lambda a: a.time)
    uniq = [b for i, b in enumerate(beats) if i == 0 or b.time > beats[i - 1].time]
    steps = [b.quantized_step for b in uniq] if d.get('abs_sps') else None
    return ('bt', [b.time for b in uniq], steps)


_TABLE_CACHE = {}


LIKELIHOOD_MAX_FRAMES = 16
BIG_RNE53_BUDGET = 4000000     # additions of the rne53-on-rationals instance per many-state melody table (measured: 257 states x 14 frames of integers 0.5 s)


def ref_pitch_vectors(np, s, frames):
    """unit pitch-class vector per chord frame, from the documented meaning (independent of the library function and of
    its table of unpitched programs): every non-drum note whose program is pitched under General MIDI contributes to each
    frame the time it sounds inside it.  `frames` = seconds per frame, or the list of interior frame boundaries."""
    import numbers
    if isinstance(frames, numbers.Number):
        nf = int(math.ceil(s.total_time / frames))
        bounds = [frames * k for k in range(1, nf)]
    else:
        bounds = sorted(frames)
        nf = len(bounds) + 1
    lo = [NINF] + list(bounds)
    hi = list(bounds) + [float('inf')]
    x = np.zeros([nf, 12])
    for n in s.notes:
        if not gm_pitched(n):
            continue
        for f in range(nf):
            ov = min(n.end_time, hi[f]) - max(n.start_time, lo[f])
            if ov > 0:
                x[f, n.pitch % 12] += ov
    for f in range(nf):
        nrm = math.sqrt(float((x[f] ** 2).sum()))
        if nrm > 0:
            x[f] /= nrm
    return x


def oracle_chord_tables(np, ci, d, s, cap, fl, kc, tr, C, path=None):
    """"its own model": the three tables handed to the key-chord Viterbi must be the HMM that the DOCUMENTED parameters
    of infer_chords_for_sequence define (computed here from the chord / key tables and the parameters the caller passed):
    P(chord | key) ∝ (1-p)^#in-key * p^#out-of-key, transitions by key_change_prob / chord_change_prob, emission =
    concentration * <frame pitch vector, unit chord vector>."""
    import inspect
    sig = inspect.signature(ci.infer_chords_for_sequence)
    par = {k: v.default for k, v in sig.parameters.items() if v.default is not inspect.Parameter.empty}
    par.update(case_params(d))
    pout, kcp, ccp, conc = (par['chord_pitch_out_of_key_prob'], par['key_change_prob'], par['chord_change_prob'],
                            par['chord_note_concentration'])
    chords = list(ci._CHORDS)
    if len(chords) != C or kc.shape != (12, C) or tr.shape != (12 * C, 12 * C):
        return None     # patched / cut-down tables are handled by the table streams
    key = (tuple(map(str, chords)), pout, kcp, ccp)
    if key not in _TABLE_CACHE:
        with np.errstate(divide='ignore', invalid='ignore'):
            n_in, n_out = np.zeros([12, C]), np.zeros([12, C])
            vec = np.zeros([C, 12])
            for k in range(12):
                kp = set((k + o) % 12 for o in ci._KEY_PITCHES)
                for i, ch in enumerate(chords):
                    if i == 0:
                        continue
                    cp = set((ch[0] + o) % 12 for o in ci._CHORD_KIND_PITCHES[ch[1]])
                    n_in[k, i], n_out[k, i] = len(cp & kp), len(cp - kp)
            for i, ch in enumerate(chords):
                if i:
                    for o in ci._CHORD_KIND_PITCHES[ch[1]]:
                        vec[i, (ch[0] + o) % 12] = 1.0
                    vec[i] /= np.sqrt((vec[i] ** 2).sum())
            dist = (1 - pout) ** n_in * pout ** n_out
            dist = dist / dist.sum(axis=1)[:, None]
            T = np.zeros([12 * C, 12 * C])
            for k1 in range(12):
                for k2 in range(12):
                    blk = T[k1 * C:(k1 + 1) * C, k2 * C:(k2 + 1) * C]
                    if k1 != k2:
                        blk[:, :] = (kcp / 11 * dist[k2])[None, :]
                    else:
                        blk[:, :] = (1 - kcp) * ccp * (dist[k2][None, :] + dist[k2][:, None] / (C - 1))
                        blk[np.arange(C), np.arange(C)] = (1 - kcp) * (1 - ccp)
            _TABLE_CACHE.clear()
            _TABLE_CACHE[key] = (np.log(dist), np.log(T), vec)
    KC, T, vec = _TABLE_CACHE[key]
    bad = close_tables(np, kc, KC)
    if bad:
        return 'the chord-given-key table used by chord inference is not the one chord_pitch_out_of_key_prob=%r defines: entry %r' % (pout, bad)
    bad = close_tables(np, tr, T)
    if bad:
        return ('the key-chord transition table used by chord inference is not the one key_change_prob=%r, '
                'chord_change_prob=%r, chord_pitch_out_of_key_prob=%r define: entry %r' % (kcp, ccp, pout, bad))
    if cap.frames_arg:
        with np.errstate(divide='ignore', invalid='ignore'):
            npv = ref_pitch_vectors(np, s, cap.frames_arg[0])
            E = conc * npv.dot(vec.T)
        bad = close_tables(np, fl, E, tol=1e-7)
        if bad:
            return 'the frame likelihood table used by chord inference is not chord_note_concentration=%r times the chord match: entry %r' % (conc, bad)
        # the statement itself, on tables none of which came out of the call under judgement: the path the call
        # returned must reach the optimum of an independent dynamic program over the HMM that THIS call's parameters
        # define (whatever the process did before).  Independent tables agree with the code's only up to rounding
        # (sums taken in another order), hence a relative 1e-6 instead of exact equality.
        frames = fl.shape[0]
        if path is not None and frames <= LIKELIHOOD_MAX_FRAMES and not (np.isnan(E).any() or np.isnan(KC).any() or np.isnan(T).any()):
            with np.errstate(invalid='ignore'):
                sc = kc_score(np, path, E, KC, T, C)
                opt = dp_optimum(np, kc_init(np, E, KC, C), T, [np.tile(E[t], 12) for t in range(1, frames)])
            if not (sc == opt or sc >= opt - 1e-6 * max(1.0, abs(opt))):
                return ('the returned key/chord path has log-likelihood %r under the model defined by this call\'s parameters '
                        '(out_of_key=%r, key_change=%r, chord_change=%r, concentration=%r); the maximum is %r'
                        % (sc, pout, kcp, ccp, conc, opt))
    return None


def oracle_chords(np, d, res):
    """the property statement on the result of infer_chords_for_sequence (independent of the model)"""
    from note_seq import chord_inference as ci
    if res['err'] is not None:
        return 'infer_chords_for_sequence raised %s: %s on a valid sequence' % (type(res['err']).__name__, res['err'])
    s, cap = res['seq'], res['cap']
    if len(cap.kc) != 1:
        return 'the Viterbi helper was not called exactly once'
    fl, kc, tr, result = cap.kc[0]
    C = len(ci._CHORDS)
    path = kc_indices(ci, result, C)
    frames = fl.shape[0]
    if not (1 <= frames <= 64):
        return 'generator produced %d frames (outside 1..64)' % frames
    if cap.impure:
        return ('_key_chord_transition_distribution returned a different table when called again with identical arguments '
                '(key_change_prob, chord_change_prob) = %r: it depends on hidden state' % (cap.impure[0],))
    # first "its own model" (NaN entries must be NaN in the independently computed tables too), only then the excuse
    r = oracle_chord_tables(np, ci, d, s, cap, fl, kc, tr, C, path)
    if r:
        return r
    if np.isnan(fl).any() or np.isnan(kc).any() or np.isnan(tr).any():
        return None     # NaN tables (0 * inf in a parameter corner) are outside the property's quantifier
    r = oracle_kc(np, path, fl, kc, tr, C)
    if r:
        return r
    tm = chord_timing(d, s, cap)
    if tm[0] == 'pc':
        starts = [f * tm[1] for f in range(frames)]
        steps = [f * tm[2] for f in range(frames)]
    else:
        starts = [0.0] + list(tm[1])
        steps = ([0] + list(tm[2])) if tm[2] is not None else None
    if len(starts) != frames:
        return 'number of chord frames %d does not match the frame boundaries %d' % (frames, len(starts))
    anns = [a for a in s.text_annotations if a.annotation_type == CHORD_SYMBOL]
    times = [a.time for a in anns]
    if any(t not in starts for t in times):
        return 'a chord annotation is not on a chord frame boundary'
    if any(a >= b for a, b in zip(times, times[1:])):
        return 'chord annotation times are not strictly increasing (more than one per frame boundary or out of order)'
    if any(a.text == b.text for a, b in zip(anns, anns[1:])):
        return 'two consecutive chord annotations carry the same symbol'
    if steps is not None and any(a.quantized_step != steps[starts.index(a.time)] for a in anns):
        return 'quantized_step of a chord annotation is not the step of its frame boundary'
    # the annotated chord sequence (each symbol holds until the next) is the sequence Viterbi chose
    figs = figure_table(ci)
    want = [figs[i % C] for i in path]
    got, cur, k = [], None, 0
    for f in range(frames):
        if k < len(anns) and anns[k].time == starts[f]:
            cur = anns[k].text
            k += 1
        got.append(cur)
    if got != want:
        return 'the annotated chord sequence is not the maximum-likelihood chord sequence'
    if d['add_key_signatures']:
        ks = list(s.key_signatures)
        kt = [x.time for x in ks]
        if any(t not in starts for t in kt) or any(a >= b for a, b in zip(kt, kt[1:])):
            return 'key signatures are not on distinct increasing frame boundaries'
        if any(a.key == b.key for a, b in zip(ks, ks[1:])):
            return 'two consecutive key signatures carry the same key'
        got, cur, k = [], None, 0
        for f in range(frames):
            if k < len(ks) and ks[k].time == starts[f]:
                cur = ks[k].key
                k += 1
            got.append(cur)
        if got != [i // C for i in path]:
            return 'the key signatures are not the maximum-likelihood key sequence'
    return None


def transposed(d, k):
    e = dict(d)
    e['notes'] = [[n[0] + k] + list(n[1:]) for n in d['notes']]
    return e


def oracle_transpose(np, d, res, cache, k):
    """chord likelihood attained is unchanged when every note is moved by k semitones.  The chord
    tables are exactly rotation invariant only in exact arithmetic (row sums and norms are taken in a
    rotated order), so the comparison allows a relative 1e-9 (observed differences: a few ulps)."""
    from note_seq import chord_inference as ci
    C = len(ci._CHORDS)
    res2 = run_chords(transposed(d, k), cache)
    if res2['err'] is not None:
        return 'transposed by %d: raised %s' % (k, type(res2['err']).__name__), None
    fl, kc, tr, r1 = res['cap'].kc[0]
    fl2, kc2, tr2, r2 = res2['cap'].kc[0]
    if np.isnan(fl).any() or np.isnan(tr).any() or np.isnan(kc).any():
        return None, None
    a = kc_score(np, kc_indices(ci, r1, C), fl, kc, tr, C)
    b = kc_score(np, kc_indices(ci, r2, C), fl2, kc2, tr2, C)
    if a == b:
        return None, 0.0
    if a in (NINF,) or b in (NINF,):
        return 'transposed by %d: likelihood %r became %r' % (k, a, b), None
    rel = abs(a - b) / max(1.0, abs(a))
    if rel > 1e-9:
        return 'transposed by %d: likelihood %r became %r' % (k, a, b), rel
    return None, rel


def run_melody(d):
    from note_seq import melody_inference as mi
    s = build_seq(d)
    n0 = len(s.notes)
    with Capture(None) as cap, warnings.catch_warnings(), __import__('numpy').errstate(divide='ignore', invalid='ignore'):
        warnings.simplefilter('ignore')
        try:
            inst = mi.infer_melody_for_sequence(s, **d['params'])
            err = None
        except Exception as e:  # pylint: disable=broad-except
            inst, err = None, e
    return {'seq': s, 'n0': n0, 'inst': inst, 'err': err, 'cap': cap}


class Fail(str):
    """a failure text, optionally classified as an instance of a known finding"""
    finding = None


def known_f_c19_1(d, pitch):
    """F-C19-1 exactly: some zero-length note sits on total_time and the offending melody note has its pitch"""
    return any(n[1] == n[2] == d['total_time'] and n[0] == pitch and not n[5] for n in d['notes'])


def close_tables(np, a, b, tol=1e-9):
    """entrywise: both -inf, both nan, or within relative `tol` (absolute near zero); returns the first bad index or None"""
    a, b = np.asarray(a, dtype=float), np.asarray(b, dtype=float)
    if a.shape != b.shape:
        return ('shape', a.shape, b.shape)
    with np.errstate(invalid='ignore'):
        same = (a == b) | (np.isnan(a) & np.isnan(b)) | (np.abs(a - b) <= tol * np.maximum(1.0, np.maximum(np.abs(a), np.abs(b))))
    if same.all():
        return None
    i = tuple(int(x) for x in np.argwhere(~same)[0])
    return (i, float(a[i]), float(b[i]))


def oracle_melody_tables(np, d, orig, real, total_time, pitches, fl, tr):
    """"its own model": the tables the real Viterbi was run on must be the melody HMM that the DOCUMENTED parameters
    of infer_melody_for_sequence define for this sequence, computed here from scratch (plain loops, from the docstrings:
    Cauchy-like interval prior normalised over the 128 pitches and scaled by 1 - rest_prob, uniform onset after rest,
    sustain free, per-frame emission = rest / onset / sustain probabilities to the power of the frame duration)."""
    import inspect
    from note_seq import melody_inference as mi
    sig = inspect.signature(mi.infer_melody_for_sequence)
    par = {k: v.default for k, v in sig.parameters.items() if v.default is not inspect.Parameter.empty}
    par.update(d['params'])
    scale, rest = par['melody_interval_scale'], par['rest_prob']
    non_max, non_empty_rest, missing = (par['instantaneous_non_max_pitch_prob'], par['instantaneous_non_empty_rest_prob'],
                                        par['instantaneous_missing_pitch_prob'])
    want_p = sorted(set(n.pitch for n in real))
    if list(pitches) != want_p:
        return 'melody states are over pitches %r, the sequence has %r' % (list(pitches), want_p)
    n = len(want_p)
    # --- transition table
    with np.errstate(divide='ignore', invalid='ignore'):
        f = lambda iv: 1.0 / (1.0 + (iv / scale) ** 2)
        T = np.zeros([1 + 2 * n, 1 + 2 * n])
        T[0, 0] = 1.0
        T[0, 1:n + 1] = 1.0 / 128
        for i, p in enumerate(want_p):
            norm = sum(f(q - p) for q in range(128))
            for row in (1 + i, 1 + n + i):
                T[row, 0] = rest
                for j, q in enumerate(want_p):
                    T[row, 1 + j] = f(q - p) / norm * (1 - rest)
                T[row, 1 + n + i] = 1.0
        T = np.log(T)
    bad = close_tables(np, tr, T)
    if bad:
        return ('the transition table used by melody inference is not the one its parameters define '
                '(melody_interval_scale=%r, rest_prob=%r): entry %r' % (scale, rest, bad))
    # --- frames: boundaries are the distinct note starts/ends strictly inside (0, total_time)
    times = sorted(set([x.start_time for x in real] + [x.end_time for x in real]) - {0.0, total_time})
    bounds = [0.0] + times + [total_time]
    nf = len(times) + 1
    if fl.shape != (nf, 1 + 2 * n):
        return 'frame likelihood table has shape %r, expected %r' % (fl.shape, (nf, 1 + 2 * n))
    import bisect
    on = np.zeros([nf, n], dtype=bool)
    act = np.zeros([nf, n], dtype=bool)
    for x in real:
        a, b = bisect.bisect_right(times, x.start_time), bisect.bisect_left(times, x.end_time)
        on[a, want_p.index(x.pitch)] = True
        act[a:b + 1, want_p.index(x.pitch)] = True
    E = np.zeros([nf, 1 + 2 * n])
    for fr in range(nf):
        E[fr, 0] = non_empty_rest if act[fr].any() else 1 - non_empty_rest
        for j in range(n):
            top = non_max if act[fr, j + 1:].any() else 1 - non_max
            E[fr, 1 + j] = top if on[fr, j] else 0.0
            E[fr, 1 + n + j] = 0.0 if on[fr, j] else top * ((1 - missing) if act[fr, j] else missing)
    with np.errstate(divide='ignore', invalid='ignore'):
        E = np.array([bounds[i + 1] - bounds[i] for i in range(nf)])[:, None] * np.log(E)
    bad = close_tables(np, fl, E)
    if bad:
        return ('the frame likelihood table used by melody inference is not the one its parameters define '
                '(non_max=%r, non_empty_rest=%r, missing=%r): entry %r' % (non_max, non_empty_rest, missing, bad))
    return None


def oracle_melody(np, d, res):
    from note_seq import constants
    if res['err'] is not None:
        return 'infer_melody_for_sequence raised %s: %s on a valid sequence' % (type(res['err']).__name__, res['err'])
    s, n0, inst, cap = res['seq'], res['n0'], res['inst'], res['cap']
    orig, added = list(s.notes)[:n0], list(s.notes)[n0:]
    if any(n.instrument != inst for n in added) or any(n.instrument == inst for n in orig):
        return 'the melody instrument is not a fresh instrument number'
    if inst == 9:
        return 'the melody was put on the drum channel'
    real = [n for n in orig if gm_pitched(n)]       # General MIDI, not the library's table
    mel = sorted(added, key=lambda n: (n.start_time, n.end_time))
    for a, b in zip(mel, mel[1:]):
        if a.end_time > b.start_time:
            return 'melody notes overlap: %r-%r and %r-%r' % (a.start_time, a.end_time, b.start_time, b.end_time)
    for n in mel:
        if not (0.0 <= n.start_time and n.start_time <= n.end_time and n.end_time <= s.total_time):
            return 'melody note %r-%r outside the sequence [0, %r]' % (n.start_time, n.end_time, s.total_time)
        if not any(o.pitch == n.pitch and o.start_time == n.start_time for o in real):
            f = Fail('melody note (pitch %d at %r) does not start at the onset of a real note of that pitch' % (n.pitch, n.start_time))
            if known_f_c19_1(d, n.pitch):
                f.finding = 'F-C19-1'
            return f
    if cap.mel:
        pitches, fl, tr, result = cap.mel[0]
        r = oracle_melody_tables(np, d, orig, real, s.total_time, pitches, fl, tr)
        if r:
            return r
        if np.isnan(fl).any() or np.isnan(tr).any():
            return None
        if (fl == np.inf).any() or (tr == np.inf).any():
            return None
        path = mel_indices(None, result, pitches)
        r = oracle_mel(np, path, fl, tr)
        if r:
            return r
    elif real:
        return 'no inference was run although the sequence has pitched notes'
    elif added:
        return 'notes were added to a sequence without pitched notes'
    return None


# ============================================================================= driver plumbing
def run_groups(chk, groups):
    """groups: list of lists of request lines (a group shares driver state); returns responses per group"""
    if not groups:
        return []
    w = max(1, min(8, len(groups)))
    buckets = [[] for _ in range(w)]
    sizes = [0] * w
    order = sorted(range(len(groups)), key=lambda g: -sum(len(x) for x in groups[g]))
    for g in order:
        b = sizes.index(min(sizes))
        buckets[b].append(g)
        sizes[b] += sum(len(x) for x in groups[g]) + 1
    def work(b):
        lines = [ln for g in buckets[b] for ln in groups[g]]
        return chk.driver(EXE, lines) if lines else []
    with ThreadPoolExecutor(max_workers=w) as ex:
        outs = list(ex.map(work, range(w)))
    res = [None] * len(groups)
    for b in range(w):
        pos = 0
        for g in buckets[b]:
            res[g] = outs[b][pos:pos + len(groups[g])]
            pos += len(groups[g])
    return res


def parse_run(resp):
    """'ok <n> s… <opt>' -> (path, opt token) | ('err', name)"""
    t = resp.split()
    if t[0] != 'ok':
        return None, resp
    n = int(t[1])
    return [int(x) for x in t[2:2 + n]], t[2 + n]


# ============================================================================= run
def run(chk):
    import numpy as np
    from note_seq import chord_inference as ci, melody_inference as mi
    try:
        from absl import logging as alog
        alog.set_verbosity(alog.ERROR)
    except Exception:  # pylint: disable=broad-except
        pass
    generate(chk)
    chk.prove(MODULES, THEOREMS, [EXE], extra_trusted=[
        'rne53 (Common/Float.lean; monotonicity proved in Proofs/Rounding.lean) as the model of numpy binary64 addition: '
        'the optimality theorems are instantiated for `rne53 (a + b)` with -inf absorbing (Props/C19_float.lean) and that '
        'instance is run bit-exactly against numpy on every small/medium table of this run; the 1164-state tables are run '
        'over Lean native Float (same IEEE additions) — NaN, +inf, overflow and subnormal sums are outside the model',
        'numpy: log, dot, norm, argmax (first maximum), tile; likelihood VALUES are inputs to the model',
        'monkey-patched module tables _CHORDS/_KEY_CHORDS for the small key-chord instances (the real function body runs)'])
    chk.rule = ('Viterbi helpers on integer tables with ties and -inf (melody: P=1..6 pitches, 1..12 frames, and P=63..128 '
                'pitches = 127..257 states, 2..14 frames, best path through states >= 128; key-chord: '
                '12*C states for C=1..6 and the real 1164 states), float tables captured from end-to-end runs; '
                'infer_chords_for_sequence on generated sequences of 1..64 chord frames (five supported meters, explicit '
                'chords_per_bar, beat annotations with/without absolute quantization, six parameter sets incl. 0/1 '
                'probabilities plus a 2x2x2x3 cube of parameter sets sharing every pair of table parameters), and call '
                'histories in one process (one parameter changes per call, weak evidence, each call judged independently); '
                'infer_melody_for_sequence on 0..100 notes (<= 200 note events) from a time pool with '
                'coincident onsets/offsets, and on 64..128 distinct pitches with held high notes. '
                'non-trivial = distinct instance on which the implementation returned a path')
    C0 = len(ci._CHORDS)
    import time as _time
    t_mark = [_time.time()]

    def lap(name):
        chk.notes.setdefault('phase_seconds', {})[name] = round(_time.time() - t_mark[0], 1)
        if os.environ.get('VERIF_C19_TIMING'):
            print('[c19 timing] %-14s %.1f s' % (name, _time.time() - t_mark[0]), file=sys.stderr)
        t_mark[0] = _time.time()
    lap('prove')
    groups, meta = [], []     # meta[g] = list of (stream, key, impl, kind, extra) aligned with groups[g]
    nl_hex = hexf(-np.log(12))

    def fail_once(what, replay):
        fid = getattr(what, 'finding', None)
        if fid is None and replay.get('kind') in ('chords-history', 'melody-history', 'helper-history'):
            # a whole call sequence: self-contained whatever the cause (state or not), so it is reported before the
            # single-call failures of the main streams (whose replays start from a fresh process) and outside their cap
            if sum(1 for f in chk.failures if f['replay'].get('kind') == replay['kind']) < 3:
                chk.fail(str(what), replay, finding=None)
                nh = sum(1 for f in chk.failures[:-1] if str(f['replay'].get('kind', '')).endswith('-history'))
                chk.failures.insert(nh, chk.failures.pop())      # after the earlier history failures, before the rest
            return
        if sum(1 for f in chk.failures if f['finding'] == fid) < (5 if fid else 25):
            chk.fail(str(what), replay, finding=fid)

    ms0 = [module_state()]

    def state_guard(rep, what):
        """module-level tables of chord_inference / melody_inference / constants: same objects, same contents"""
        diff = module_state_diff(ms0[0])
        chk.count('module-state', None, False, 'unchanged' if not diff else 'CHANGED')
        if diff:
            fail_once('module-level table(s) %s are no longer what they were before %s' % (', '.join(diff), what), rep)
            ms0[0] = module_state()

    # ------------------------------------------------------------------ corpus first
    for name, obj in corpus_cases(PID):
        r = replay_case(np, obj, {}, quiet=True)
        chk.count('corpus', name, True, 'fails' if r else 'holds')
        if r:
            # classified by the shape of the input (see `known_f_c19_1`), never by the file's own label
            chk.fail(str(r), obj, finding=getattr(r, 'finding', None))

    # ------------------------------------------------------------------ (i) melody Viterbi, integer tables
    rng = chk.subrng('vit-mel-int')
    for i in range(chk.n(1500, 50000)):
        P = rng.choice([1, 1, 2, 2, 3, 4, 6])
        T = rng.choice([1, 2, 2, 3, 4, 5, 8, 12])
        n = 2 * P + 1
        span = rng.choice([1, 2, 4, 9])
        pin = rng.choice([0.0, 0.1, 0.3, 0.6])
        fl = np.array([[NINF if rng.random() < pin else float(rng.randint(-span, 0)) for _ in range(n)] for _ in range(T)])
        tr = np.array([[NINF if rng.random() < pin else float(rng.randint(-span, 0)) for _ in range(n)] for _ in range(n)])
        pitches = sorted(rng.sample(range(30, 100), P))
        case = {'kind': 'viterbi-mel', 'P': P, 'frames': T, 'fl': [[ext(x) for x in r] for r in fl.tolist()],
                'tr': [[ext(x) for x in r] for r in tr.tolist()]}
        try:
            path = impl_mel(mi, pitches, fl, tr)
        except Exception as e:  # pylint: disable=broad-except
            fail_once('_melody_viterbi raised %s: %s' % (type(e).__name__, e), case)
            continue
        o = oracle_mel(np, path, fl, tr)
        if o:
            fail_once(o, case)
        sc = mel_score(path, fl, tr)
        body = '%d %d %s %s' % (P, T, extarr(tr), extarr(fl))
        bodyf = '%d %d %s %s' % (P, T, hexarr(tr), hexarr(fl))
        groups.append(['melI ' + body, 'melF ' + bodyf, 'melQ ' + bodyf])
        meta.append([('vit-mel-int', case, (path, sc), 'ext', ['P%d' % P, 'T%s' % ('1' if T == 1 else '2-5' if T <= 5 else '6+'),
                                                              'allinf' if sc == NINF else 'finite']),
                     ('vit-mel-int', case, (path, sc), 'hex', None),
                     ('vit-mel-int', case, (path, sc), 'rat', None)])

    lap('vit-mel-int')
    # ------------------------------------------------------------------ (i) melody Viterbi, integer tables, 127..257 states
    # `viterbi_optimal` speaks about any number of states; the real helper keeps its back-pointers in a fixed-width
    # integer matrix.  Here the state count straddles 128 and 256 and the best path runs through the high indices.
    rng = chk.subrng('vit-mel-big')
    for i in range(chk.n(16, 240)):
        P = rng.choice([63, 64, 65, 70, 80, 100, 127, 128, 128, rng.randint(64, 128)])
        T = rng.choice([2, 3, 3, 4, 6, 9, 14])
        spec = {'P': P, 'frames': T, 'seed': rng.randrange(1, 2 ** 40), 'style': ['hmm', 'wide', 'hmm', 'ties'][i % 4]}
        fl, tr = big_mel_tables(np, spec)
        n = 2 * P + 1
        pitches = sorted(rng.sample(range(128), P))
        case = {'kind': 'viterbi-mel', 'P': P, 'frames': T, 'big': spec}
        try:
            path = impl_mel(mi, pitches, fl, tr)
        except Exception as e:  # pylint: disable=broad-except
            fail_once('_melody_viterbi raised %s: %s' % (type(e).__name__, e), case)
            continue
        o = oracle_mel(np, path, fl, tr)
        if o:
            fail_once(o, case)
        sc = mel_score(path, fl, tr)
        bodyf = '%d %d %s %s' % (P, T, hexarr(tr), hexarr(fl))
        rq = n * n * T <= BIG_RNE53_BUDGET
        hi = sum(1 for x in path[:-1] if x >= 128)
        groups.append(['melI %d %d %s %s' % (P, T, extarr(tr), extarr(fl)), 'melF ' + bodyf] + (['melQ ' + bodyf] if rq else []))
        meta.append([('vit-mel-big', case, (path, sc), 'ext',
                      ['style:' + spec['style'], 'states:%s' % ('<=128' if n <= 128 else '129-255' if n < 256 else '257'),
                       'T%s' % ('2-4' if T <= 4 else '5+'), 'allinf' if sc == NINF else 'finite',
                       'predecessors>=128 on path:%s' % ('0' if hi == 0 else '1' if hi == 1 else '2+'),
                       'sustain>=128 held:%s' % ('yes' if any(a == b and a >= 128 and a > P for a, b in zip(path, path[1:])) else 'no'),
                       'rne53' if rq else 'native+exact-only']),
                     ('vit-mel-big', case, (path, sc), 'hex', None)]
                    + ([('vit-mel-big', case, (path, sc), 'rat', None)] if rq else []))
    lap('vit-mel-big')
    # ------------------------------------------------------------------ (i) key-chord Viterbi, small patched state space
    rng = chk.subrng('vit-kc-int')
    for i in range(chk.n(400, 8000)):
        C = rng.choice([1, 2, 2, 3, 3, 5, 6])
        T = rng.choice([1, 2, 2, 3, 4, 6, 9])
        n = 12 * C
        span = rng.choice([1, 2, 5, 20])
        pin = rng.choice([0.0, 0.0, 0.1, 0.4])
        g = lambda: NINF if rng.random() < pin else float(rng.randint(-span, 0))
        fl = np.array([[g() for _ in range(C)] for _ in range(T)])
        kc = np.array([[g() for _ in range(C)] for _ in range(12)])
        tr = np.array([[g() for _ in range(n)] for _ in range(n)])
        case = {'kind': 'viterbi-kc', 'C': C, 'frames': T, 'fl': [[ext(x) for x in r] for r in fl.tolist()],
                'kc': [[ext(x) for x in r] for r in kc.tolist()], 'tr': [[ext(x) for x in r] for r in tr.tolist()]}
        try:
            path = impl_kc(ci, fl, kc, tr, C)
        except Exception as e:  # pylint: disable=broad-except
            fail_once('_key_chord_viterbi raised %s: %s' % (type(e).__name__, e), case)
            continue
        o = oracle_kc(np, path, fl, kc, tr, C)
        if o:
            fail_once(o, case)
        sc = kc_score(np, path, fl, kc, tr, C)
        req = '%d %d %s %s %s inline %s' % (C, T, nl_hex, hexarr(kc), hexarr(fl), hexarr(tr))
        rq = n * n * T <= 12000      # the rne53-on-rationals instance is ~4 us per addition
        groups.append(['kcF ' + req] + (['kcQ ' + req] if rq else []))
        meta.append([('vit-kc-int', case, (path, sc), 'hex', ['C%d' % C, 'T%s' % ('1' if T == 1 else '2-4' if T <= 4 else '5+'),
                                                             'allinf' if sc == NINF else 'finite', 'rne53' if rq else 'native-only'])]
                    + ([('vit-kc-int', case, (path, sc), 'rat', None)] if rq else []))

    # degenerate shapes: zero frames (IndexError: row 0 is written first) / zero states (ValueError from argmax)
    for (T, C) in [(0, 2), (1, 0), (3, 0), (0, 0)]:
        fl, kc, tr = np.zeros((T, C)), np.zeros((12, C)), np.zeros((12 * C, 12 * C))
        try:
            r = 'ok ' + ' '.join(map(str, impl_kc(ci, fl, kc, tr, C)))
        except Exception as e:  # pylint: disable=broad-except
            r = 'err ' + type(e).__name__
        groups.append([' '.join(('kcF %d %d %s %s %s inline %s' % (C, T, nl_hex, hexarr(kc), hexarr(fl), hexarr(tr))).split())])
        meta.append([('vit-degenerate', ('kc', T, C), r, 'plain', r)])
    for (T, P) in [(0, 1), (0, 0), (1, 0), (2, 0)]:
        n = 2 * P + 1
        fl, tr = np.zeros((T, n)), np.zeros((n, n))
        try:
            r = 'ok %d ' % T + ' '.join(map(str, impl_mel(mi, list(range(P)), fl, tr))) + ' ' + hexf(0.0)
        except Exception as e:  # pylint: disable=broad-except
            r = 'err ' + type(e).__name__
        groups.append([' '.join(('melF %d %d %s %s' % (P, T, hexarr(tr), hexarr(fl))).split())])
        meta.append([('vit-degenerate', ('mel', T, P), r, 'plain', r)])
    lap('vit-kc-int')
    # ------------------------------------------------------------------ (i) key-chord Viterbi, real dimensions, seeded table
    rng = chk.subrng('vit-kc-real')
    for i in range(chk.n(6, 100)):
        T = rng.choice([1, 2, 3, 4, 6])
        n = 12 * C0
        seed, lo, hi, pinf = rng.randrange(1, 2 ** 40), -rng.choice([1, 2, 5, 50]), 0, rng.choice([0, 0, 10, 40])
        tr = splitmix_table(seed, n * n, lo, hi, pinf).reshape(n, n)
        g = lambda: NINF if rng.random() < 0.05 else float(rng.randint(-3, 0))
        fl = np.array([[g() for _ in range(C0)] for _ in range(T)])
        kc = np.array([[g() for _ in range(C0)] for _ in range(12)])
        case = {'kind': 'viterbi-kc', 'C': C0, 'frames': T, 'fl': [[ext(x) for x in r] for r in fl.tolist()],
                'kc': [[ext(x) for x in r] for r in kc.tolist()], 'tr_lcg': [seed, lo, hi, pinf]}
        try:
            path = impl_kc(ci, fl, kc, tr, C0)
        except Exception as e:  # pylint: disable=broad-except
            fail_once('_key_chord_viterbi raised %s: %s' % (type(e).__name__, e), case)
            continue
        o = oracle_kc(np, path, fl, kc, tr, C0)
        if o:
            fail_once(o, case)
        sc = kc_score(np, path, fl, kc, tr, C0)
        groups.append(['kcF %d %d %s %s %s lcg %d %d %d %d' % (C0, T, nl_hex, hexarr(kc), hexarr(fl), seed, lo, hi, pinf)])
        meta.append([('vit-kc-real', case, (path, sc), 'hex', ['T%d' % T, 'pinf%d' % pinf])])

    lap('vit-kc-real')
    # ------------------------------------------------------------------ (ii)+(iii) chords end to end
    rng = chk.subrng('chords-e2e')
    cache = {}
    nparams = chk.n(3, N_BASE_PARAM_SETS)
    set_lines = {}
    by_tr = {}      # digest of the transition table the code used -> current group index
    tr_groups = []  # [(tr array, [lines], [meta], [work])]
    max_rel = 0.0

    def chord_lines(stream, d, res, hist, replay_obj):
        """correspondence requests for one finished call: the real Viterbi's path on the tables it was given vs the
        model on the same tables, and the annotations it wrote vs the model's writer.  Groups are keyed by the CONTENT
        of the transition table the code used (never by the parameters it was supposed to come from)."""
        fl, kc, tr, result = res['cap'].kc[0]
        if np.isnan(fl).any() or np.isnan(tr).any() or np.isnan(kc).any():
            chk.count(stream, None, False, hist + ['nan-tables-skipped'])
            return
        path = kc_indices(ci, result, C0)
        sc = kc_score(np, path, fl, kc, tr, C0)
        import hashlib
        key = hashlib.md5(tr.tobytes()).hexdigest()
        if key not in by_tr or tr_groups[by_tr[key]][3][0] > 60:
            # one driver process per ~60 frames of work; the 1164 x 1164 table is sent once per process
            if key not in set_lines:
                set_lines[key] = 'setF %d %s' % (12 * C0, hexarr(tr))
            by_tr[key] = len(tr_groups)
            tr_groups.append((tr, [set_lines[key]], [('setF', None, None, 'set', None)], [0]))
        ref_tr, lines, mt, work = tr_groups[by_tr[key]]
        work[0] += fl.shape[0]
        lines.append('kcF %d %d %s %s %s cur' % (C0, fl.shape[0], nl_hex, hexarr(kc), hexarr(fl)))
        mt.append(('vit-kc-float', replay_obj, (path, sc), 'hex',
                   ['T%s' % ('1' if len(path) == 1 else '2-8' if len(path) <= 8 else '9+'), 'params:%d' % d['params'],
                    'from:' + stream]))
        # the writer, on the implementation's path
        s = res['seq']
        tm = chord_timing(d, s, res['cap'])
        if tm[0] == 'pc':
            tmw = 'pc %s %d' % (rat(tm[1]), tm[2])
        else:
            tmw = 'bt %d %s %s' % (len(tm[1]), ' '.join(rat(t) for t in tm[1]),
                                   '0' if tm[2] is None else '1 %d %s' % (len(tm[2]), ' '.join(map(str, tm[2]))))
            tmw = ' '.join(tmw.split())
        anns = [a for a in s.text_annotations if a.annotation_type == CHORD_SYMBOL]
        quant = bool(d.get('spq') or d.get('abs_sps'))
        impl_w = 'ok %d' % len(anns) + ''.join(' %s %s %s' % (rat(a.time), str(a.quantized_step) if quant else '-', hx(a.text)) for a in anns)
        if d['add_key_signatures']:
            impl_w += ' %d' % len(s.key_signatures) + ''.join(' %s %d' % (rat(k.time), k.key) for k in s.key_signatures)
        else:
            impl_w += ' 0'
        lines.append('cw %d %d %s %d %s' % (C0, 1 if d['add_key_signatures'] else 0, tmw, len(path), ' '.join(map(str, path))))
        mt.append((stream, replay_obj, impl_w, 'cw', hist + ['anns:%s' % ('1' if len(anns) == 1 else '2-5' if len(anns) <= 5 else '6+'),
                                                             'NC' if any(a.text == 'N.C.' for a in anns) else 'noNC',
                                                             'keychange' if len({i // C0 for i in path}) > 1 else 'onekey']))

    # the far ends of the parameter ranges (PARAM_SETS[6:N_BASE]), judged by the statement's oracle on the real code only (no
    # model tables are shipped for them in the quick tier): optimality against the independent dynamic program and the
    # well-formedness clauses, in particular "consecutive chord symbols differ" when the key moves under a held chord
    rng_x = chk.subrng('chords-extremes')
    for i in range(chk.n(36, 400)):
        d, hist = gen_chord_case(rng_x, nparams, False)
        d['params'] = 6 + i % (N_BASE_PARAM_SETS - 6)
        d['add_key_signatures'] = bool(i % 2)
        res = run_chords(d, cache)
        o = oracle_chords(np, d, res)
        chk.count('oracle-chords', None)
        chk.count('chords-extremes', json.dumps(d, sort_keys=True, default=str)[:2000], res['err'] is None,
                  ['params:%d' % d['params'], 'err' if res['err'] is not None else 'ok'])
        if o:
            fail_once(o, d)
    for i in range(chk.n(60, 1700)):
        d, hist = gen_chord_case(rng, nparams, chk.thorough)
        res = run_chords(d, cache)
        o = oracle_chords(np, d, res)
        chk.count('oracle-chords', None)
        if o:
            fail_once(o, d)
        if res['err'] is not None or len(res['cap'].kc) != 1:
            chk.count('chords-e2e', None, False, hist + ['impl-error'])
            continue
        if i % 3 == 0 and d['notes'] and all(12 <= n[0] <= 110 for n in d['notes']):
            k = rng.randrange(1, 12)
            o, rel = oracle_transpose(np, d, res, cache, k)
            chk.count('oracle-transpose', None, False, 'exact' if rel == 0.0 else 'ulps' if rel is not None else 'n/a')
            if rel:
                max_rel = max(max_rel, rel)
            if o:
                fail_once(o, dict(d, transpose=k))
        chord_lines('chords-e2e', d, res, hist, d)
        state_guard(d, 'this infer_chords_for_sequence call')
    chk.notes['transpose_max_relative_difference'] = max_rel
    lap('chords-e2e')
    # ------------------------------------------------------------------ program table, chords: the ends of the program
    # range and every edge of the unpitched ranges (all 128 programs in the thorough tier)
    rng = chk.subrng('program-table-chords')
    for p_ in (range(128) if chk.thorough else PROGRAM_EDGES):
        d, hist = gen_program_chords(p_, rng)
        res = run_chords(d, cache)
        o = oracle_chords(np, d, res)
        chk.count('oracle-chords', None)
        if o:
            fail_once(Fail('second instrument with program %d (%s under General MIDI): %s' % (
                p_, 'unpitched' if p_ in GM_UNPITCHED else 'pitched', o)), d)
        if res['err'] is not None or len(res['cap'].kc) != 1:
            chk.count('program-table', None, False, hist + ['impl-error'])
            continue
        chord_lines('program-table', d, res, ['chords'] + hist, d)
    lap('program-chords')

    # ------------------------------------------------------------------ call histories in ONE process
    # consecutive infer_chords_for_sequence calls whose parameters differ in exactly one of key_change_prob /
    # chord_change_prob / chord_pitch_out_of_key_prob / chord_note_concentration (so every pair is held fixed while a
    # third varies), on weak evidence, WITHOUT the harness's table cache (the real functions run unpatched but for the
    # recording wrappers).  Every call is judged on its own: the tables handed to the Viterbi helper and the
    # likelihood of the returned path against the HMM that the parameters of THAT call define, computed independently.
    rng = chk.subrng('chords-history')
    for h in range(chk.n(2, 20)):
        calls = gen_history(rng, chk.thorough, ['star', 'walk'][h % 2])
        for k, (d, hist) in enumerate(calls):
            res = run_chords(d, None)
            rep = {'kind': 'chords-history', 'calls': [c for c, _ in calls[:k + 1]]}
            o = oracle_chords(np, d, res)
            chk.count('oracle-chords', None)
            if o:
                fail_once(Fail('call %d of %d consecutive calls in one process: %s' % (k + 1, len(calls), o)), rep)
            if res['err'] is not None or len(res['cap'].kc) != 1:
                chk.count('chords-history', None, False, hist + ['impl-error'])
                continue
            chord_lines('chords-history', d, res, hist, rep)
            state_guard(rep, 'this call history')
    for tr, lines, mt, _ in tr_groups:
        groups.append(lines)
        meta.append(mt)
    lap('chords-history')

    # documented rejections of infer_chords_for_sequence (oracle only; the writer model does not cover them)
    malformed_chords(chk, cache, fail_once)

    lap('chords-rejections')
    # ------------------------------------------------------------------ (ii)+(iii) melody end to end + note frames
    rng = chk.subrng('melody-e2e')
    rng_z = chk.subrng('melody-zero-length-at-end')
    rng_b = chk.subrng('melody-many-pitches')
    n_main = chk.n(400, 20000)
    n_z = chk.n(20, 300)
    n_b = chk.n(20, 400)
    rng_p = chk.subrng('program-table-melody')
    # one melody case per MIDI program (both tiers), then the call histories (each call is one case of the loop)
    tail = [(d_, ['program-table'] + h_, d_, 'program-table') for d_, h_ in (gen_program_melody(p_, rng_p) for p_ in range(128))]
    rng_h = chk.subrng('melody-history')
    for _ in range(chk.n(12, 150)):
        calls = gen_melody_history(rng_h)
        for k_, (d_, h_) in enumerate(calls):
            tail.append((d_, ['melody-history'] + h_, {'kind': 'melody-history', 'calls': [c for c, _ in calls[:k_ + 1]]}, 'melody-history'))
    for i in range(n_main + n_z + n_b + len(tail)):
        rep, mstream = None, 'melody-e2e'
        if i >= n_main + n_z + n_b:
            d, hist, rep, mstream = tail[i - n_main - n_z - n_b]
        elif i < n_main:
            d, hist = gen_melody_case(rng)
        elif i >= n_main + n_z:
            d, hist = gen_melody_big(rng_b)
        else:
            # separate small stream: a zero-length note exactly on total_time (known finding F-C19-1 when it
            # misleads the melody; the model follows the code, so the correspondence still has to agree)
            d, hist = gen_melody_case(rng_z)
            if not d['notes']:
                d['notes'].append([60, 0.0, 1.0, 0, 0, False])
                d['total_time'] = max(d['total_time'], 1.0)
            d['notes'].append([rng_z.choice([n[0] for n in d['notes']] + [100, 101]), d['total_time'], d['total_time'], 0, 0, False])
            hist = ['zero-length-at-total_time']
        rep = rep or d
        res = run_melody(d)
        chk.count('oracle-melody', None)
        o = oracle_melody(np, d, res)
        if o:
            if mstream == 'melody-history':
                f_ = Fail('call %d of %d consecutive infer_melody_for_sequence calls in one process: %s' % (
                    len(rep['calls']), len(rep['calls']), o))
                f_.finding = getattr(o, 'finding', None)
                o = f_
            fail_once(o, rep)
        state_guard(rep, 'this infer_melody_for_sequence call')
        if res['err'] is not None:
            chk.count(mstream, None, False, hist + ['impl-error'])
            continue
        s, n0 = res['seq'], res['n0']
        lines, mt = [], []
        # sequence_note_frames
        s0 = build_seq(d)
        with warnings.catch_warnings():
            warnings.simplefilter('ignore')
            pitches, has_on, has_nt, ev = mi.sequence_note_frames(s0)
        on = sorted((int(f), int(p)) for f, p in zip(*np.nonzero(has_on)))
        pr = sorted((int(f), int(p)) for f, p in zip(*np.nonzero(has_nt)))
        impl_nf = 'ok %d %s %d %s %d %s %d %s' % (len(pitches), ' '.join(map(str, pitches)), len(ev), ' '.join(rat(t) for t in ev),
                                                  len(on), ' '.join('%d %d' % x for x in on), len(pr), ' '.join('%d %d' % x for x in pr))
        lines.append('nf %s %d %s' % (rat(s0.total_time), len(s0.notes),
                                      ' '.join('%d %s %s %d %d' % (n.pitch, rat(n.start_time), rat(n.end_time), 1 if n.is_drum else 0, n.program)
                                               for n in s0.notes)))
        mt.append(('note-frames', d, ' '.join(impl_nf.split()), 'nf', ['frames:%s' % ('1' if not ev else '2-10' if len(ev) < 10 else '11+')]))
        insts = [n.instrument for n in s0.notes]
        lines.append('mi %d %s' % (len(insts), ' '.join(map(str, insts))))
        mt.append(('melody-e2e', d, 'ok %d' % res['inst'], 'mi', None))
        added = list(s.notes)[n0:]
        if res['cap'].mel:
            pit, fl, tr, result = res['cap'].mel[0]
            if not (np.isnan(fl).any() or np.isnan(tr).any()):
                path = mel_indices(None, result, pit)
                sc = mel_score(path, fl, tr)
                lines.append('melF %d %d %s %s' % (len(pit), fl.shape[0], hexarr(tr), hexarr(fl)))
                # the rne53-on-rationals instance: small tables, and those many-pitch tables whose transition table is
                # sparse enough (additions with -inf cost nothing; measured 0.3 s at 181 states x 33 frames)
                if fl.shape[1] > 128:
                    rq = fl.shape[0] * int((tr != NINF).sum()) <= 600000      # finite additions, ~1.3 us each
                else:
                    rq = fl.shape[0] * fl.shape[1] ** 2 <= 30000
                rq = rq and not (fl == np.inf).any()
                mt.append(('vit-mel-float', d, (path, sc), 'hex', ['P%s' % ('1' if len(pit) == 1 else '2-4' if len(pit) <= 4 else '5+'),
                                                                   'allinf' if sc == NINF else 'finite', 'rne53' if rq else 'native-only']))
                if rq:
                    lines.append('melQ %d %d %s %s' % (len(pit), fl.shape[0], hexarr(tr), hexarr(fl)))
                    mt.append(('vit-mel-float', d, (path, sc), 'rat', None))
                times = [0.0] + list(ev)
                lines.append('mw %s %d %s %d %s %d %s' % (rat(s.total_time), len(pit), ' '.join(map(str, pit)), len(path),
                                                          ' '.join(map(str, path)), len(times), ' '.join(rat(t) for t in times)))
                impl_w = 'ok %d' % len(added) + ''.join(' %s %s %d' % (rat(n.start_time), rat(n.end_time), n.pitch) for n in added)
                mt.append((mstream, rep, impl_w, 'mw', hist + ['added:%s' % ('0' if not added else '1-3' if len(added) <= 3 else '4+'),
                                                                  'rest-in-path' if 0 in path[1:] else 'no-rest',
                                                                  'sustain' if any(x > len(pit) for x in path) else 'no-sustain']
                           + (['states:%s' % ('129-255' if fl.shape[1] < 256 else '257'),
                               'sustain>=128 held:%s' % ('yes' if any(a == b and a >= 128 and a > len(pit) for a, b in zip(path, path[1:])) else 'no')]
                              if fl.shape[1] > 128 else [])))
                if any(n.velocity != mi.MELODY_VELOCITY for n in added):
                    chk.disagree(mstream, rep, 'velocity %s' % [n.velocity for n in added], 'velocity %d' % mi.MELODY_VELOCITY)
            else:
                chk.count(mstream, None, False, hist + ['nan-tables-skipped'])
        else:
            if added:
                chk.disagree(mstream, rep, 'notes added without inference', 'no notes')
            chk.count(mstream, ('none', i), False, hist + ['no-pitched-notes'])
        groups.append(lines)
        meta.append(mt)

    lap('melody-e2e')
    # ------------------------------------------------------------------ chord tables (what the rotation theorem talks about)
    lines, mt = [], []
    p = 0.25
    dist = ci._key_chord_distribution(chord_pitch_out_of_key_prob=p)
    vecs = ci._chord_pitch_vectors()
    for key in range(12):
        for c in range(C0):
            ratio = dist[key, c] / dist[key, 0]
            cand = [(a, b) for a in range(5) for b in range(5) if abs((1 - p) ** a * p ** b - ratio) < 1e-9]
            lines.append('cnt %d %d' % (key, c))
            mt.append(('chord-tables', ('cnt', key, c), 'ok %d %d' % cand[0] if len(cand) == 1 else 'ambiguous %r' % cand, 'plain', 'cnt'))
    for c in range(C0):
        lines.append('vec %d' % c)
        mt.append(('chord-tables', ('vec', c), 'ok ' + ' '.join('1' if x > 0 else '0' for x in vecs[c]), 'plain', 'vec'))
    kinds = list(ci._CHORD_KINDS)
    for k in range(12):
        for c in range(C0):
            if c == 0:
                want = 0
            else:
                root, kind = ci._CHORDS[c]
                want = ci._CHORDS.index(((root + k) % 12, kind))
            lines.append('rot %d %d' % (k, c))
            mt.append(('chord-tables', ('rot', k, c), 'ok %d' % want, 'plain', 'rot'))
    groups.append(lines)
    meta.append(mt)
    monitor_rotation(chk, np, ci, fail_once)

    # ------------------------------------------------------------------ helpers: same arguments twice, first result
    # overwritten in place in between (a memoised helper hands every caller the same array)
    rng = chk.subrng('helper-history')
    for name in HELPERS:
        slow = name == '_key_chord_transition_distribution'
        for _ in range(1 if slow else chk.n(6, 60)):
            d = gen_melody_case(rng)[0]
            if not d['notes']:
                d['notes'].append([60, 0.0, 1.0, 0, 0, False])
                d['total_time'] = max(d['total_time'], 1.0)
            d['total_time'] = max(d['total_time'], 0.5)
            arg = {'_key_chord_distribution': rng.choice([0.01, 0.05, 0.3]), '_key_chord_transition_distribution': rng.choice([0.001, 0.05]),
                   'sequence_note_pitch_vectors': rng.choice([0.5, 1.0, 0.37]), '_chord_frame_log_likelihood': rng.choice([0.5, 1.0]),
                   '_melody_transition_distribution': rng.choice([0.1, 0.3]),
                   '_melody_frame_log_likelihood': rng.choice([0.0, 1e-3])}.get(name)
            rep = {'kind': 'helper-history', 'fn': name, 'seq': d, 'arg': arg}
            try:
                r = helper_history(np, name, d, arg)
            except Exception as e:  # pylint: disable=broad-except
                r = '%s raised %s: %s' % (name, type(e).__name__, e)
            chk.count('helper-history', (name, digest(d), arg), True, name + (': holds' if not r else ': FAILS'))
            if r:
                fail_once(r, rep)
            state_guard(rep, 'these helper calls')
    lap('helper-history')
    # ------------------------------------------------------------------ run the model, diff
    lap('chord-tables')
    outs = run_groups(chk, groups)
    lap('lean-driver')
    shown = set()
    for mt, out in zip(meta, outs):
        for (stream, case, impl, kind, hist), resp in zip(mt, out):
            if kind == 'set':
                if resp != 'ok':
                    raise RuntimeError('driver rejected a transition table: %s' % resp[:100])
                continue
            if kind in ('ext', 'hex', 'rat'):
                path, sc = impl
                mpath, mopt = parse_run(resp)
                if mpath is None:
                    chk.count(stream, None, False, hist)
                    chk.disagree(stream, case, 'path %s' % path, resp[:200])
                    continue
                if kind == 'ext':
                    mval = NINF if mopt == '-inf' else float(int(mopt))
                elif kind == 'rat':
                    mval = NINF if mopt == '-inf' else unrat(mopt)
                    if mval != NINF:
                        mval = float(mval) if float(mval) == mval else mval    # exact: a rational that is not this double stays unequal
                else:
                    mval = unhexf(mopt)
                if hist is not None:
                    chk.count(stream, digest(case), True, hist)
                if mpath != path:
                    chk.disagree(stream, case, 'path %s' % path, 'path %s' % mpath)
                elif not feq(mval, sc):
                    chk.disagree(stream, case, 'score of path %r' % sc, 'optimum %r' % mval)
                if stream not in shown and len(path) > 1:
                    shown.add(stream)
                    chk.sample({'stream': stream, 'impl_path': path[:12], 'model_path': mpath[:12], 'impl_score': sc, 'model_optimum': mval})
            else:
                if hist is not None:
                    chk.count(stream, digest(case) if kind != 'plain' else case, resp.startswith('ok'), hist)
                if ' '.join(impl.split()) != ' '.join(strip_frames(resp, kind).split()):
                    chk.disagree(stream, case, impl[:600], resp[:600])
                if (stream, kind) not in shown and kind in ('cw', 'mw') and len(impl) > 12:
                    shown.add((stream, kind))
                    chk.sample({'stream': stream, 'impl': impl[:300], 'model': strip_frames(resp, kind)[:300]})


def strip_frames(resp, kind):
    """the chord writer model also reports the frame index of every annotation; the implementation's
    annotations carry only time / step / text, so drop the index before comparing"""
    if kind != 'cw' or not resp.startswith('ok'):
        return resp
    t = resp.split()
    n = int(t[1])
    out = ['ok', t[1]]
    p = 2
    for _ in range(n):
        out += t[p + 1:p + 4]
        p += 4
    m = int(t[p])
    out.append(t[p])
    p += 1
    for _ in range(m):
        out += t[p + 1:p + 3]
        p += 3
    return ' '.join(out)


def monitor_rotation(chk, np, ci, fail_once):
    """hypotheses of `keychord_transpose_invariant`, monitored on the implementation's own tables:
    prior and transition tables of the default parameters are invariant under moving key and chord
    root up k semitones, up to rounding (row sums are taken in a rotated order)."""
    C = len(ci._CHORDS)
    nk = len(list(ci._CHORD_KINDS))
    dist = ci._key_chord_distribution(chord_pitch_out_of_key_prob=0.01)
    trd = ci._key_chord_transition_distribution(dist, key_change_prob=0.001, chord_change_prob=0.5)
    worst = 0.0
    for k in range(1, 12):
        rot = np.array([0] + [1 + (((c - 1) // nk + k) % 12) * nk + (c - 1) % nk for c in range(1, C)])
        sig = np.array([((i // C + k) % 12) * C + rot[i % C] for i in range(12 * C)])
        a = dist[np.ix_((np.arange(12) + k) % 12, rot)]
        worst = max(worst, float(np.max(np.abs(a - dist) / dist)))
        b = trd[np.ix_(sig, sig)]
        worst = max(worst, float(np.max(np.abs(b - trd) / trd)))
        chk.count('rotation-monitor', ('k', k), True, 'k')
    chk.notes['rotation_tables_max_relative_difference'] = worst
    if worst > 1e-12:
        fail_once('key-chord prior / transition tables are not invariant under transposition (relative difference %g)' % worst,
                  {'kind': 'rotation-tables'})


def malformed_chords(chk, cache, fail_once):
    """inputs outside the quantifier must be refused with the documented exception"""
    from note_seq import chord_inference as ci, sequences_lib as sl
    base = {'kind': 'chords', 'notes': [[60, 0.0, 2.0, 0, 0, False], [64, 0.0, 2.0, 0, 0, False]], 'total_time': 2.0,
            'qpm': 120.0, 'ts': [4, 4], 'spq': 4, 'chords_per_bar': None, 'annotations': [], 'key_signatures': [],
            'add_key_signatures': False, 'params': 0}
    cases = [
        ('already-has-chords', dict(base, annotations=[[0.0, 'C', CHORD_SYMBOL]]), ci.SequenceAlreadyHasChordsError),
        ('uncommon-time-signature', dict(base, ts=[5, 4]), ci.UncommonTimeSignatureError),
        ('non-integer-steps-per-chord', dict(base, chords_per_bar=3), ci.NonIntegerStepsPerChordError),
        ('empty', dict(base, notes=[], total_time=0.0), ci.EmptySequenceError),
        ('too-long', dict(base, notes=[[60, 0.0, 1.0, 0, 0, False]], total_time=1001.0), ci.SequenceTooLongError),
        ('unquantized-no-beats', dict(base, spq=None), sl.QuantizationStatusError),
        ('unquantized-chords-per-bar', dict(base, spq=None, chords_per_bar=2, annotations=[[1.0, '', BEAT]]), sl.QuantizationStatusError),
    ]
    for name, d, exc in cases:
        res = run_chords(d, cache)
        ok = isinstance(res['err'], exc)
        chk.count('chords-rejections', name, True, name + (':ok' if ok else ':WRONG'))
        if not ok:
            fail_once('%s: expected %s, got %s' % (name, exc.__name__, type(res['err']).__name__ if res['err'] else 'a result'),
                      dict(d, expect=exc.__name__))


# ============================================================================= replay
def tab(rows):
    import numpy as np
    return np.array([[NINF if x == '-inf' else float(x) for x in r] for r in rows], dtype=np.float64)


def replay_case(np, obj, cache, quiet=False):
    """re-run one replay input against the real code with the oracle; returns the failure text or None.  The module-level
    tables must be what they were before."""
    before = module_state()
    r = _replay_case(np, obj, cache, quiet)
    diff = module_state_diff(before)
    if diff and not r:
        r = 'module-level table(s) %s are no longer what they were before the call(s)' % ', '.join(diff)
    return r


def _replay_case(np, obj, cache, quiet=False):
    from note_seq import chord_inference as ci, melody_inference as mi
    kind = obj.get('kind')
    say = (lambda *a: None) if quiet else print
    if kind == 'viterbi-mel':
        fl, tr = big_mel_tables(np, obj['big']) if 'big' in obj else (tab(obj['fl']), tab(obj['tr']))
        pitches = list(range(obj['P']))
        try:
            path = impl_mel(mi, pitches, fl, tr)
        except Exception as e:  # pylint: disable=broad-except
            return '_melody_viterbi raised %s: %s' % (type(e).__name__, e)
        say('path', path, 'score', mel_score(path, fl, tr))
        return oracle_mel(np, path, fl, tr)
    if kind == 'viterbi-kc':
        C = obj['C']
        fl, kc = tab(obj['fl']), tab(obj['kc'])
        if 'tr_lcg' in obj:
            seed, lo, hi, pinf = obj['tr_lcg']
            tr = splitmix_table(seed, (12 * C) ** 2, lo, hi, pinf).reshape(12 * C, 12 * C)
        else:
            tr = tab(obj['tr'])
        try:
            path = impl_kc(ci, fl, kc, tr, C)
        except Exception as e:  # pylint: disable=broad-except
            return '_key_chord_viterbi raised %s: %s' % (type(e).__name__, e)
        say('path', path, 'score', kc_score(np, path, fl, kc, tr, C))
        return oracle_kc(np, path, fl, kc, tr, C)
    if kind == 'chords-history':
        # all calls are made again, in order, in this one process, unpatched; every call is judged on its own
        first = None
        for k, d in enumerate(obj['calls']):
            res = run_chords(d, None)
            r = oracle_chords(np, d, res)
            say('call %d/%d params %r -> %s' % (k + 1, len(obj['calls']), case_params(d), r or 'holds'))
            if r and first is None:
                first = 'call %d of %d consecutive calls in one process: %s' % (k + 1, len(obj['calls']), r)
        return first
    if kind == 'melody-history':
        first = None
        for k, d in enumerate(obj['calls']):
            res = run_melody(d)
            r = oracle_melody(np, d, res)
            say('call %d/%d params %r -> %s' % (k + 1, len(obj['calls']), d['params'], r or 'holds'))
            if r and first is None:
                first = Fail('call %d of %d consecutive infer_melody_for_sequence calls in one process: %s' % (k + 1, len(obj['calls']), r))
                first.finding = getattr(r, 'finding', None)
        return first
    if kind == 'helper-history':
        try:
            return helper_history(np, obj['fn'], obj['seq'], obj['arg'])
        except Exception as e:  # pylint: disable=broad-except
            return '%s raised %s: %s' % (obj['fn'], type(e).__name__, e)
    if kind == 'chords':
        if obj.get('expect'):
            res = run_chords(obj, cache)
            got = type(res['err']).__name__ if res['err'] else 'a result'
            say('expected', obj['expect'], 'got', got)
            return None if got == obj['expect'] else 'expected %s, got %s' % (obj['expect'], got)
        res = run_chords(obj, cache)
        if res['err'] is None:
            say('annotations', [(a.time, a.text) for a in res['seq'].text_annotations if a.annotation_type == CHORD_SYMBOL][:20])
        r = oracle_chords(np, obj, res)
        if r is None and obj.get('transpose'):
            r, rel = oracle_transpose(np, obj, res, cache, obj['transpose'])
            say('transposed by', obj['transpose'], 'relative likelihood difference', rel)
        return r
    if kind == 'melody':
        res = run_melody(obj)
        if res['err'] is None:
            say('melody', [(n.pitch, n.start_time, n.end_time) for n in list(res['seq'].notes)[res['n0']:]][:20])
        return oracle_melody(np, obj, res)
    if kind == 'rotation-tables':
        class _C:
            notes = {}

            def count(self, *a, **k):
                pass
        out = []
        monitor_rotation(_C(), np, ci, lambda what, rep: out.append(what))
        return out[0] if out else None
    return 'unknown replay kind %r' % kind


def replay(chk, obj):
    import numpy as np
    print('replay C19:', obj.get('kind'))
    r = replay_case(np, obj, {})
    print('PROPERTY FAILS: %s' % r if r else 'property holds on this input')
    return 1 if r else 0
